"""E1 streamsim -- stream strategies and budget managers (C03, C04, C10).

Parties: a stream source, the classifier handed to the strategy (stub that
maps a feature row to a scripted probability row, or a real Parzen window
classifier retrained by the driver), the real strategy / budget manager, the
honest driver, and by-standers that issue spurious queries.

Simulated time = stream position (instances delivered).
"""
from __future__ import annotations

import copy
import inspect
import math

import numpy as np

from ..core import Ctx, SimRng, canon, close, same
from ..runner import Check

# --------------------------------------------------------------------------
# subjects
# --------------------------------------------------------------------------

WINDOW_MANAGERS = [
    "FixedUncertaintyBudgetManager",
    "VariableUncertaintyBudgetManager",
    "RandomVariableUncertaintyBudgetManager",
    "SplitBudgetManager",
    "RandomBudgetManager",
]
MANAGERS = WINDOW_MANAGERS + ["DensityBasedSplitBudgetManager", "BalancedIncrementalQuantileFilter"]
ZLIOBAITE = ["FixedUncertainty", "VariableUncertainty", "RandomVariableUncertainty", "Split"]
COGNITIVE = [
    "CognitiveDualQueryStrategy",
    "CognitiveDualQueryStrategyRan",
    "CognitiveDualQueryStrategyFixUn",
    "CognitiveDualQueryStrategyVarUn",
    "CognitiveDualQueryStrategyRanVarUn",
]
STRATEGIES = ["StreamRandomSampling", "PeriodicSampling"] + ZLIOBAITE + ["StreamProbabilisticAL", "StreamDensityBasedAL"] + COGNITIVE

DEFAULT_MANAGER = {
    "FixedUncertainty": "FixedUncertaintyBudgetManager",
    "VariableUncertainty": "VariableUncertaintyBudgetManager",
    "RandomVariableUncertainty": "RandomVariableUncertaintyBudgetManager",
    "Split": "SplitBudgetManager",
    "StreamProbabilisticAL": "BalancedIncrementalQuantileFilter",
    "StreamDensityBasedAL": "DensityBasedSplitBudgetManager",
    "CognitiveDualQueryStrategy": "RandomVariableUncertaintyBudgetManager",
    "CognitiveDualQueryStrategyRan": "RandomBudgetManager",
    "CognitiveDualQueryStrategyFixUn": "FixedUncertaintyBudgetManager",
    "CognitiveDualQueryStrategyVarUn": "VariableUncertaintyBudgetManager",
    "CognitiveDualQueryStrategyRanVarUn": "RandomVariableUncertaintyBudgetManager",
}

# attributes that are re-derived from constructor parameters on every call and
# are therefore not "budget accounting, thresholds, windows or generator"
SNAP_EXCLUDE = {"n_features_in_", "budget_", "dist_func_", "dist_func_dict_", "feature_names_in_"}


def _lookup(name):
    import skactiveml.stream as st
    import skactiveml.stream.budgetmanager as bm

    return getattr(st, name, None) or getattr(bm, name)


def build(spec):
    """Construct a strategy / manager from a JSON spec."""
    params = {}
    for k, v in spec["params"].items():
        if isinstance(v, dict) and "cls" in v:
            v = build(v)
        elif isinstance(v, dict) and "rs" in v:
            v = np.random.RandomState(v["rs"])
        elif isinstance(v, dict) and set(v) == {"fn"}:
            import sklearn.metrics.pairwise as PW

            v = getattr(PW, v["fn"])
        params[k] = v
    return _lookup(spec["cls"])(**params)


def subject_name(spec):
    bm = spec["params"].get("budget_manager")
    if isinstance(bm, dict):
        return f"{spec['cls']}+{bm['cls']}"
    return spec["cls"]


def effective_manager(spec):
    """Name of the manager class that takes the decisions for this subject."""
    if spec["cls"] in MANAGERS:
        return spec["cls"]
    bm = spec["params"].get("budget_manager")
    if isinstance(bm, dict):
        return bm["cls"]
    return DEFAULT_MANAGER.get(spec["cls"])


# ---------------- parameter generators


def gen_budget(rng: SimRng):
    r = rng.random()
    if r < 0.12:
        return 1.0
    if r < 0.22:
        return 0.5
    if r < 0.30:
        return 0.01
    if r < 0.40:
        return 0.1
    if r < 0.55:
        return rng.pick([0.3, 0.15, 0.35, 0.6, 0.7, 0.2, 0.25, 0.05, 0.4, 0.12])  # 'round' decimal budgets
    return round(rng.log_uniform(0.02, 0.95), 4)


def gen_seed(rng: SimRng):
    s = 0 if rng.chance(0.12) else rng.randrange(0, 1000)  # 0 is a seed like any other (and falsy)
    return {"rs": s} if rng.chance(0.25) else s


def gen_manager(rng: SimRng, cls, budget=None, classes=(0, 1)):
    b = gen_budget(rng) if budget is None else budget
    w = rng.pick([1, 2, 3, 5, 10, 50, 100])
    s = rng.pick([0.01, 0.01, 0.1, 0.5, 1.0])
    theta = rng.pick([1.0, 1.0, 0.5, 0.05])
    p = {"budget": b}
    if cls == "FixedUncertaintyBudgetManager":
        p.update(classes=list(classes), w=w)
    elif cls == "VariableUncertaintyBudgetManager":
        p.update(theta=theta, s=s, w=w)
    elif cls == "RandomVariableUncertaintyBudgetManager":
        p.update(delta=rng.pick([1.0, 0.1, 2.0]), theta=theta, s=s, w=w, random_state=gen_seed(rng))
    elif cls == "SplitBudgetManager":
        p.update(v=rng.pick([0.1, 0.5, 0.9]), theta=theta, s=s, w=w, random_state=gen_seed(rng))
    elif cls == "RandomBudgetManager":
        p.update(w=w, random_state=gen_seed(rng))
    elif cls == "DensityBasedSplitBudgetManager":
        p.update(theta=theta, s=s, delta=rng.pick([1.0, 0.1, 2.0]), random_state=gen_seed(rng))
    elif cls == "BalancedIncrementalQuantileFilter":
        p.update(w=rng.pick([1, 2, 3, 5, 10, 50, 100]), w_tol=rng.pick([1, 5, 50, 2.5]))
    else:  # pragma: no cover
        raise ValueError(cls)
    return {"kind": "manager", "cls": cls, "params": p}


def gen_strategy(rng: SimRng, cls, classes=(0, 1), explicit_manager=None, manager_pool=None):
    p = {"random_state": gen_seed(rng)}
    budget = gen_budget(rng)
    if cls == "StreamRandomSampling":
        p.update(budget=budget, allow_exceeding_budget=rng.chance(0.5))
    elif cls == "PeriodicSampling":
        p.update(budget=budget)
    else:
        if explicit_manager is None:
            explicit_manager = rng.chance(0.3)
        if explicit_manager:
            mcls = rng.pick(manager_pool or MANAGERS)
            p["budget_manager"] = gen_manager(rng, mcls, budget=budget, classes=classes)
            p["budget"] = None if rng.chance(0.5) else budget
            if p["budget"] is not None and rng.chance(0.3):
                # a manager that leaves its budget open while the strategy names one
                p["budget_manager"]["params"]["budget"] = None
        else:
            p["budget"] = budget
        if cls in ("FixedUncertainty", "CognitiveDualQueryStrategyFixUn"):
            p["classes"] = list(classes)
        if cls in ("CognitiveDualQueryStrategyRan", "CognitiveDualQueryStrategyFixUn", "CognitiveDualQueryStrategyVarUn", "CognitiveDualQueryStrategyRanVarUn"):
            p.pop("budget_manager", None)
            p["budget"] = budget
        if cls == "StreamProbabilisticAL":
            p.update(prior=rng.pick([1e-3, 1.0, 0.5]), m_max=rng.pick([1, 2, 3]))
            if rng.chance(0.25):
                p["metric"] = "rbf"
                r = rng.random()
                if r < 0.4:
                    p["metric_dict"] = {"gamma": rng.pick([0.5, 2.0])}
                elif r < 0.6:
                    p["metric_dict"] = {}  # a caller-owned dict without gamma
        if cls == "StreamDensityBasedAL":
            p["window_size"] = rng.pick([1, 2, 3, 5, 10, 100])
        if cls == "StreamDensityBasedAL" or cls in COGNITIVE:
            # the distance function and its (caller-owned) keyword dictionary
            r = rng.random()
            if r < 0.2:
                p["dist_func_dict"] = {"metric": rng.pick(["manhattan", "chebyshev"])}
            elif r < 0.3:
                p["dist_func"] = {"fn": "manhattan_distances"}
            elif r < 0.35:
                p["dist_func_dict"] = {}
        if cls in COGNITIVE:
            p.update(
                force_full_budget=rng.chance(0.5),
                density_threshold=rng.pick([0, 1, 1, 2]),
                cognition_window_size=rng.pick([1, 2, 3, 5, 10]),
            )
    return {"kind": "strategy", "cls": cls, "params": p}


# --------------------------------------------------------------------------
# the classifier peers
# --------------------------------------------------------------------------

_STUB = None


def stub_class():
    """Stub classifier: a *pure function* of the feature row.

    column 0 = probability of the first class, column 1 = frequency mass
    (-1 marks a corrupted row whose probabilities are NaN).  Being stateless it
    answers spurious queries exactly like genuine ones.
    """
    global _STUB
    if _STUB is None:
        from skactiveml.base import ClassFrequencyEstimator

        class StubClf(ClassFrequencyEstimator):
            def __init__(self, classes=None, missing_label=np.nan, cost_matrix=None, class_prior=0.0, random_state=None):
                super().__init__(classes=classes, missing_label=missing_label, cost_matrix=cost_matrix, class_prior=class_prior, random_state=random_state)

            def fit(self, X, y, sample_weight=None):
                return self

            def _rows(self, X):
                X = np.asarray(X, dtype=float)
                k = len(self.classes)
                p = np.clip(X[:, 0], 0.0, 1.0)
                rows = np.empty((len(X), k))
                rows[:, 0] = p
                rows[:, 1:] = ((1 - p) / (k - 1))[:, None]
                return X, rows

            def predict_freq(self, X):
                X, rows = self._rows(X)
                n = np.maximum(X[:, 1], 0.0) if X.shape[1] > 1 else np.ones(len(X))
                return rows * n[:, None]

            def predict_proba(self, X):
                X, rows = self._rows(X)
                if X.shape[1] > 1:
                    rows[X[:, 1] == -1.0] = np.nan
                return rows

        _STUB = StubClf
    return _STUB


class ClfPeer:
    """The classifier party: stub (stateless) or real PWC retrained by the driver."""

    def __init__(self, spec, X, y):
        self.spec = spec
        self.kind = spec["kind"]
        self.classes = spec["classes"]
        self.d = len(X[0]) if len(X) else 1
        self.Xtr = [list(r) for r in spec.get("init_X", [])]
        self.ytr = list(spec.get("init_y", []))
        self.ring = None
        if spec.get("ring") and self.kind != "stub":
            # a preallocated sliding training window that the caller overwrites in place (same array objects
            # for the whole stream)
            m = int(spec["ring"])
            self.ring = [np.zeros((m, self.d)), np.full(m, np.nan), 0]
            for r, l in zip(self.Xtr, self.ytr):
                self._ring_put(r, l)
        if self.kind == "stub":
            self.clf = stub_class()(classes=self.classes)
        else:
            from skactiveml.classifier import ParzenWindowClassifier

            self.clf = ParzenWindowClassifier(classes=self.classes, random_state=0, metric_dict={"gamma": 1.0})
            self._fit()
        self.retrain_at = set(spec.get("retrain_at", []))

    def _ring_put(self, row, label):
        Xw, yw, ptr = self.ring
        Xw[ptr] = np.asarray(row, dtype=float)[: self.d]
        yw[ptr] = label
        self.ring[2] = (ptr + 1) % len(yw)

    def train_set(self):
        if self.ring is not None:
            return self.ring[0], self.ring[1]
        if len(self.Xtr):
            return np.array(self.Xtr, dtype=float), np.array(self.ytr, dtype=float)
        return np.zeros((1, self.d)), np.array([np.nan])

    def _fit(self):
        self.clf.fit(*self.train_set())

    def learn(self, rows, labels, pos, ctx):
        if self.kind == "stub":
            return
        for r, l in zip(rows, labels):
            self.Xtr.append(list(r))
            self.ytr.append(l)
            if self.ring is not None:
                self._ring_put(r, l)
        if pos is not None and pos in self.retrain_at:
            self._fit()
            ctx.fault("clf_retrain")


# --------------------------------------------------------------------------
# driving a subject
# --------------------------------------------------------------------------


def snapshot(obj):
    """Canonical snapshot of every fitted attribute (recursing into budget_manager_)."""
    out = {}
    for k in sorted(vars(obj)):
        if not k.endswith("_") or k.startswith("_") or k in SNAP_EXCLUDE:
            continue
        v = getattr(obj, k)
        if k == "budget_manager_":
            out[k] = snapshot(v)
        else:
            out[k] = canon(v)
    return out


def raw_state(obj):
    out = {}
    for k in sorted(vars(obj)):
        if not k.endswith("_") or k.startswith("_") or k in SNAP_EXCLUDE:
            continue
        v = getattr(obj, k)
        out[k] = raw_state(v) if k == "budget_manager_" else v
    return out


def flat_state(d, prefix=""):
    out = {}
    for k, v in d.items():
        if isinstance(v, dict):
            out.update(flat_state(v, prefix + k + "."))
        else:
            out[prefix + k] = v
    return out


def diff_keys(a, b, prefix=""):
    keys = []
    for k in sorted(set(a) | set(b)):
        if k not in a or k not in b:
            keys.append(prefix + k + "(presence)")
        elif isinstance(a[k], dict) and isinstance(b[k], dict) and "nd" not in a[k] and "rs" not in a[k] and "deque" not in a[k]:
            keys.extend(diff_keys(a[k], b[k], prefix + k + "."))
        elif a[k] != b[k]:
            keys.append(prefix + k)
    return keys


class Driver:
    """Honest caller of one subject (strategy or stand-alone manager)."""

    def __init__(self, spec, clf_spec, X, y):
        self.spec = spec
        self.is_manager = spec["kind"] == "manager"
        self.obj = build(copy.deepcopy(spec))
        self.X = np.array(X, dtype=float).reshape(len(X), -1)
        self.y = None if y is None else np.array(y, dtype=float)
        self.clf_peer = None if self.is_manager else ClfPeer(clf_spec, X, y)
        self.upd_params = set(inspect.signature(self.obj.update).parameters)
        self.query_params = set(inspect.signature(self.obj.query).parameters) if not self.is_manager else set()
        self.needs_clf = (not self.is_manager) and "clf" in self.query_params

    # -- query on literal rows (strategy) or utilities (manager)
    def query_rows(self, rows, return_utilities=True):
        if self.is_manager:
            u = np.array(rows, dtype=float).reshape(-1)
            return list(self.obj.query_by_utility(u)), u
        rows = np.array(rows, dtype=float).reshape(len(rows), -1)
        kw = {"return_utilities": return_utilities}
        if self.needs_clf:
            kw["clf"] = self.clf_peer.clf
            if self.clf_peer.spec.get("pass_Xy"):
                kw["X"], kw["y"] = self.clf_peer.train_set()
                if self.clf_peer.spec.get("fit_clf"):
                    kw["fit_clf"] = True
                if self.clf_peer.spec.get("sw"):
                    # per-sample weights of the training set (a function of the position only)
                    kw["sample_weight"] = 0.5 + (np.arange(len(kw["y"])) % 3).astype(float)
            if self.clf_peer.spec.get("uw") and "utility_weight" in self.query_params:
                # one weight per candidate, a function of the candidate itself (so it follows the instance through
                # every chunking and into every world)
                kw["utility_weight"] = 0.5 + (np.abs(np.floor(rows[:, -1] * 1000.0)) % 7) / 7.0
        res = self.obj.query(rows, **kw)
        if return_utilities:
            return res[0], res[1]
        return res, None

    def update_rows(self, rows, queried, utilities):
        if self.is_manager:
            cand = np.zeros((len(rows), 1))
            if "utilities" in self.upd_params:
                self.obj.update(cand, queried, utilities)
            else:
                self.obj.update(cand, queried)
            return
        rows = np.array(rows, dtype=float).reshape(len(rows), -1)
        if "budget_manager_param_dict" in self.upd_params:
            self.obj.update(rows, queried, budget_manager_param_dict={"utilities": utilities})
        else:
            self.obj.update(rows, queried)

    def rows(self, lo, hi):
        if self.is_manager:
            return self.X[lo:hi, 0]
        return self.X[lo:hi]


def check_indices_wellformed(q, n):
    """C10 clause: strictly increasing integers in range(n)."""
    try:
        ql = list(q)
    except TypeError:
        return "not iterable"
    last = -1
    for v in ql:
        if isinstance(v, (bool, np.bool_)) or not isinstance(v, (int, np.integer)):
            return f"non-integer entry {v!r}"
        if not (0 <= int(v) < n):
            return f"index {v} outside range({n})"
        if int(v) <= last:
            return f"not strictly increasing at {v}"
        last = int(v)
    return None


# --------------------------------------------------------------------------
# data generators
# --------------------------------------------------------------------------

ADVERSARIES = ["maximal", "constant", "bursts", "uniform", "near_threshold", "low", "mixed"]


def gen_utilities(rng: SimRng, n, family, budget):
    nr = rng.np("util")
    if family == "maximal":
        u = np.full(n, 1.0)
    elif family == "constant":
        u = np.full(n, rng.pick([0.0, 0.3, 0.5, 0.9]))
    elif family == "bursts":
        period = rng.pick([2, 5, 17, 40])
        u = np.where((np.arange(n) // period) % 2 == 0, 0.95, 0.02)
    elif family == "uniform":
        u = nr.random_sample(n)
    elif family == "near_threshold":
        centre = rng.pick([budget, 1 - budget, 0.5])
        u = np.clip(centre + nr.normal(0, 0.02, n), 0, 1)
    elif family == "low":
        u = nr.random_sample(n) * 0.1
    else:
        parts = [gen_utilities(rng.fork(f"m{i}"), n, f, budget) for i, f in enumerate(["maximal", "uniform", "bursts"])]
        sel = nr.randint(0, 3, n)
        u = np.choose(sel, parts)
    return np.round(u, 6)


def corrupt(rng: SimRng, u, rate):
    u = u.copy()
    nr = rng.np("corrupt")
    idx = np.where(nr.random_sample(len(u)) < rate)[0]
    kinds = []
    for i in idx:
        k = rng.pick(["nan", "inf", "-inf"])
        u[i] = {"nan": np.nan, "inf": np.inf, "-inf": -np.inf}[k]
        kinds.append(k)
    return u, len(idx)


def gen_chunks(rng: SimRng, n, w, style=None):
    """Chunk sizes summing to n."""
    style = style or rng.pick(["ones", "small", "mixed", "large", "whole", "alternating"])
    out = []
    left = n
    while left > 0:
        if style == "ones":
            c = 1
        elif style == "small":
            c = rng.randint(1, 4)
        elif style == "mixed":
            c = rng.pick([1, 1, 2, 3, 5, 8, max(1, w), 2 * max(1, w) + 1, 3 * max(1, w)])
        elif style == "large":
            c = rng.randint(max(2, w // 2), 3 * max(2, w))
        elif style == "alternating":
            c = 1 if len(out) % 2 == 0 else rng.randint(2, 12)
        else:
            c = left
        c = max(1, min(c, left, 120))
        out.append(c)
        left -= c
    return out


def gen_stream_stub(rng: SimRng, n, d, family, budget, corrupt_rate=0.0):
    """Feature rows for the stub classifier: col0 -> probability, col1 -> mass."""
    u = gen_utilities(rng, n, family, budget)  # desired 'uncertainty' in [0,1]
    p = np.round(1.0 - 0.5 * u, 6)  # max-probability = 1 - u/2, utility = u/2
    nr = rng.np("mass")
    mass = np.round(nr.choice([0.0, 0.5, 1.0, 3.0, 10.0], size=n), 6)
    n_corrupt = 0
    if corrupt_rate > 0:
        bad = nr.random_sample(n) < corrupt_rate
        mass[bad] = -1.0
        n_corrupt = int(bad.sum())
    cols = [p, mass]
    for j in range(max(0, d - 2)):
        # few distinct values -> duplicates and distance ties for the density filters
        cols.append(np.round(nr.choice(np.linspace(-1, 1, rng.pick([3, 7, 50])), size=n), 6))
    X = np.stack(cols[: max(d, 2)], axis=1)
    return X, n_corrupt


def gen_stream_real(rng: SimRng, n, d):
    nr = rng.np("real")
    y = nr.randint(0, 2, n).astype(float)
    centres = nr.normal(0, 1.5, (2, d))
    X = centres[y.astype(int)] + nr.normal(0, rng.pick([0.3, 1.0]), (n, d))
    if rng.chance(0.3):  # duplicated points
        dup = nr.randint(0, n, n // 4)
        X[dup] = X[nr.randint(0, n, n // 4)]
    return np.round(X, 5), y


def add_train_set(g, clf_spec, subject, d, n_classes):
    """Give the stub peer a static training set that query() may be handed."""
    if subject["params"].get("metric") or g.chance(0.3):
        k = g.pick([1, 3, 6])
        clf_spec["init_X"] = np.round(g.np("stubtrain").normal(0, 1.0, (k, d)), 4).tolist()
        clf_spec["init_y"] = [float(i % n_classes) if i % 4 != 3 else float("nan") for i in range(k)]
        clf_spec["pass_Xy"] = True
        clf_spec["fit_clf"] = g.chance(0.5)
        clf_spec["sw"] = g.chance(0.3)
    if subject["cls"] == "StreamProbabilisticAL" and g.chance(0.3):
        clf_spec["uw"] = True


# --------------------------------------------------------------------------
# C03 -- stream query is a pure simulation
# --------------------------------------------------------------------------


class StreamCheckBase(Check):
    engine = "streamsim"
    sim_time_unit = "stream instances delivered (sum over worlds)"
    components = {
        "real": [
            "skactiveml.stream.* strategies (all 14 exported)",
            "skactiveml.stream.budgetmanager.* (all 7 exported)",
            "skactiveml.classifier.ParzenWindowClassifier (when clf.kind == 'pwc')",
            "numpy RandomState",
        ],
        "stub": ["StubClf: stateless ClassFrequencyEstimator mapping a feature row to a scripted probability/frequency row", "labelling oracle (array of hidden labels)"],
    }

    def gen_subject(self, rng, pool=None, allow_manager=True, classes=(0, 1)):
        if allow_manager and rng.chance(0.4):
            cls = rng.pick(pool["managers"] if pool else MANAGERS)
            return gen_manager(rng, cls, classes=classes)
        cls = rng.pick(pool["strategies"] if pool else STRATEGIES)
        return gen_strategy(rng, cls, classes=classes)

    def shrink_common(self, sc):
        """Generic reductions of a stream scenario (prefix cuts, chunk merges)."""
        chunks = sc["chunks"]
        n = sum(chunks)
        # cut the stream after fewer chunks
        for keep in (len(chunks) // 2, len(chunks) * 3 // 4, len(chunks) - 1):
            if 1 <= keep < len(chunks):
                c = copy.deepcopy(sc)
                c["chunks"] = chunks[:keep]
                m = sum(c["chunks"])
                c["X"] = sc["X"][:m]
                if sc.get("y") is not None:
                    c["y"] = sc["y"][:m]
                if "injections" in c:
                    c["injections"] = [i for i in c["injections"] if i["at"] < keep]
                if "clf" in c and c["clf"]:
                    c["clf"]["retrain_at"] = [p for p in c["clf"].get("retrain_at", []) if p <= m]
                yield c
        # drop the first chunk
        if len(chunks) > 1:
            c = copy.deepcopy(sc)
            k = chunks[0]
            c["chunks"] = chunks[1:]
            c["X"] = sc["X"][k:]
            if sc.get("y") is not None:
                c["y"] = sc["y"][k:]
            if "injections" in c:
                c["injections"] = [dict(i, at=i["at"] - 1) for i in c["injections"] if i["at"] >= 1]
            if "clf" in c and c["clf"]:
                c["clf"]["retrain_at"] = [p - k for p in c["clf"].get("retrain_at", []) if p - k > 0]
            yield c
        # drop injections one by one
        for j in range(len(sc.get("injections", []))):
            if len(sc["injections"]) > 1:
                c = copy.deepcopy(sc)
                del c["injections"][j]
                yield c
        # no retraining
        if sc.get("clf") and sc["clf"].get("retrain_at"):
            c = copy.deepcopy(sc)
            c["clf"]["retrain_at"] = []
            yield c
        # split big chunks into ones (only where chunking is not the fault itself)
        if sc.get("mode") != "C10" and any(k > 1 for k in chunks):
            c = copy.deepcopy(sc)
            c["chunks"] = [1] * n
            if "injections" in c:
                # re-anchor injections at the first instance of their chunk
                starts = np.cumsum([0] + chunks[:-1]).tolist()
                c["injections"] = [dict(i, at=(starts[i["at"]] if i["at"] >= 0 else -1)) for i in c["injections"]]
            yield c
        # simplify parameters
        p = sc["subject"]["params"]
        for key, simple in (("w", 1), ("w", 2), ("budget", 0.5), ("s", 0.5), ("cognition_window_size", 1), ("window_size", 1)):
            if key in p and p[key] != simple and p[key] is not None:
                c = copy.deepcopy(sc)
                c["subject"]["params"][key] = simple
                yield c


class C03Check(StreamCheckBase):
    prop = "C03"
    rule = (
        "run = one subject (strategy x manager x parameters) x one stream x one chunking x one plan of spurious queries; "
        "executed as twin worlds (with / without the spurious queries). Non-trivial: at least one spurious query landed "
        "between a query and its update or before lazy initialisation AND at least one label was granted after the last "
        "injection (so a leaked state change could surface). Distinct by (subject, manager, fault kinds fired, probe set, size bucket)."
    )
    fault_kinds = ["spurious_dup", "spurious_foreign", "spurious_noutil", "spurious_resize", "drop_update", "clf_retrain", "corrupt_utility"]
    probes_expected = [
        "budget_exhausted_inside_chunk",
        "lazy_init_by_query",
        "spurious_between_query_and_update",
        "granted_after_last_injection",
        "window_evicted",
        "rng_subject",
        "nan_utility_seen",
        "spurious_before_first_update",
        "spurious_other_width",
        "global_generator_is_state",
    ]
    assumptions = [
        "the caller reports to update exactly what query returned (honest caller)",
        "attributes re-derived from constructor parameters on every call (n_features_in_, budget_, dist_func_, dist_func_dict_) are not state in the sense of the property",
        "lazy creation of fitted attributes by the first call is allowed; both creation paths must behave alike (checked through the twin)",
    ]
    tiers = {"quick": {"runs": 3600, "wall_cap": 600}, "thorough": {"runs": 70000, "wall_cap": 3300}}
    chunk = 20

    def generate(self, rng: SimRng):
        g = rng.fork("workload")
        classes = [0, 1] if g.chance(0.7) else [0, 1, 2]
        subject = self.gen_subject(g, classes=classes)
        is_manager = subject["kind"] == "manager"
        p = subject["params"]
        bm = p.get("budget_manager") if isinstance(p.get("budget_manager"), dict) else None
        w = (bm or subject)["params"].get("w", p.get("window_size", p.get("cognition_window_size", 10)))
        budget = (bm["params"]["budget"] or 0.1) if bm else (p.get("budget") or 0.1)
        n = g.pick([20, 40, 80, 150, 300] + ([400, 400] if self.tier == "thorough" else []))
        if subject["cls"] in COGNITIVE + ["StreamDensityBasedAL"]:
            n = min(n, 150 if self.tier != "thorough" else 250)
        family = g.pick(ADVERSARIES)
        sc = {"engine": "streamsim", "mode": "C03", "subject": subject, "family": family}
        f = rng.fork("faults")
        corrupt_rate = f.pick([0.0, 0.0, 0.05]) if (is_manager or subject["cls"] not in ("StreamProbabilisticAL",)) else 0.0
        if is_manager:
            u = gen_utilities(g, n, family, budget)
            if corrupt_rate:
                u, _ = corrupt(f, u, corrupt_rate)
            sc["X"] = [[float(x)] for x in u]
            sc["y"] = None
            sc["clf"] = None
            d = 1
        else:
            d = g.pick([2, 3, 3])
            if g.chance(0.7) or subject["cls"] in ("StreamRandomSampling", "PeriodicSampling"):
                X, _ = gen_stream_stub(g, n, d, family, budget, corrupt_rate if subject["cls"] != "StreamProbabilisticAL" else 0.0)
                sc["X"] = X.tolist()
                sc["y"] = None
                sc["clf"] = {"kind": "stub", "classes": classes}
                add_train_set(g, sc["clf"], subject, d, len(classes))
            else:
                X, y = gen_stream_real(g, n, d)
                k0 = g.pick([0, 1, 4])
                sc["X"] = X.tolist()
                sc["y"] = y.tolist()
                sc["clf"] = {
                    "kind": "pwc",
                    "classes": [0, 1],
                    "init_X": np.round(g.np("init").normal(0, 1.5, (k0, d)), 5).tolist(),
                    "init_y": [float(i % 2) for i in range(k0)],
                    "retrain_at": [],
                }
                if g.chance(0.4) or p.get("metric"):
                    sc["clf"]["pass_Xy"] = True
                    sc["clf"]["fit_clf"] = g.chance(0.5)
                    if g.chance(0.5):
                        sc["clf"]["ring"] = g.pick([2, 4, 8])
                        sc["clf"]["fit_clf"] = True
                for key in ("classes",):
                    if key in p:
                        p[key] = [0, 1]
                if bm and "classes" in bm["params"]:
                    bm["params"]["classes"] = [0, 1]
        chunks = gen_chunks(g, n, int(w))
        # cognitive strategies with force_full_budget=False are driven one instance at a time:
        # their chunked update is a C10 matter (see DESIGN 4/C10) and would only abort the run here
        sc["chunks"] = chunks
        if sc["clf"] and sc["clf"]["kind"] == "pwc":
            bounds = np.cumsum(chunks).tolist()
            sc["clf"]["retrain_at"] = [b for b in bounds if f.chance(0.3)]
        # injection plan
        kinds = f.subset(["dup", "foreign", "noutil", "resize"], 0.6, at_least=1)
        n_inj = f.pick([1, 2, 3, 5, 10, 25])
        tail = max(1, min(len(chunks) - 1, len(chunks) // 3))
        inj = []
        for _ in range(n_inj):
            at = f.randrange(0, max(1, len(chunks) - tail)) if f.chance(0.8) else 0
            slot = f.pick(["pre", "mid", "mid"])
            kind = f.pick(kinds)
            e = {"at": at, "slot": slot, "kind": kind, "repeat": f.pick([1, 1, 2, 4])}
            if kind in ("foreign", "resize"):
                m = f.pick([1, 1, 2, 5, 3 * int(w) + 1]) if kind == "resize" else max(1, chunks[at])
                m = min(m, 60)
                if is_manager:
                    rows = [[float(x)] for x in gen_utilities(f.fork(f"inj{len(inj)}"), m, f.pick(ADVERSARIES), budget)]
                else:
                    src = np.array(sc["X"])
                    pick = f.np(f"inj{len(inj)}").randint(0, len(src), m)
                    rows = src[pick].tolist()
                    if kind == "foreign" and sc["clf"]["kind"] == "stub":
                        # make the by-stander's rows maximally attractive: would be granted if budget is left
                        for r in rows:
                            r[0] = 0.5
                            r[1] = max(r[1], 1.0) if len(r) > 1 else 0.0
                e["rows"] = rows
            inj.append(e)
        if f.chance(0.15) and len(chunks) > 2:
            # the report of some chunks is lost (in both worlds): a query whose answer never reaches update
            sc["drop_updates"] = sorted(f.sample(range(len(chunks)), f.pick([1, 1, 2, max(1, len(chunks) // 4)])))
        if f.chance(0.15):
            # the history starts with an update that no query preceded (a caller replaying a logged chunk): the
            # spurious queries placed before it make query(), not update(), the call that lazily initialises
            m0 = f.pick([1, 1, 2, 5])
            if is_manager:
                rows0 = [[float(x)] for x in gen_utilities(f.fork("uf"), m0, f.pick(ADVERSARIES), budget)]
            else:
                src = np.array(sc["X"])
                rows0 = src[f.np("uf").randint(0, len(src), m0)].tolist()
            sc["update_first"] = {
                "rows": rows0,
                "queried": sorted(f.sample(range(m0), f.randint(0, m0))),
                "utilities": np.round(f.np("ufu").random_sample(m0), 6).tolist(),
            }
            for j in range(f.pick([1, 1, 2])):
                kind = f.pick(kinds)
                e = {"at": -1, "slot": "pre", "kind": kind, "repeat": f.pick([1, 1, 2])}
                if kind in ("foreign", "resize"):
                    m = f.pick([1, 2, 5])
                    if is_manager:
                        rows = [[float(x)] for x in gen_utilities(f.fork(f"ufi{j}"), m, f.pick(ADVERSARIES), budget)]
                    else:
                        rows = np.array(sc["X"])[f.np(f"ufi{j}").randint(0, len(sc["X"]), m)].tolist()
                        if f.chance(0.3):
                            # a by-stander's candidates need not have this stream's number of features
                            rows = [r + [0.25] for r in rows]
                            e["other_width"] = True
                    e["rows"] = rows
                inj.append(e)
        sc["injections"] = sorted(inj, key=lambda e: (e["at"], e["slot"] != "pre"))
        if getattr(self, "allow_unseeded", True) and f.chance(0.08):
            # random_state=None: the subject draws from numpy's process-global generator, which is then part of
            # the state that only update may advance; another user of that generator draws once per chunk
            def unseed(spec):
                if "random_state" in spec["params"]:
                    spec["params"]["random_state"] = None
                bm_ = spec["params"].get("budget_manager")
                if isinstance(bm_, dict):
                    unseed(bm_)

            unseed(subject)
            sc["unseeded"] = True
            # (the lazily created parts draw their own seeds from that generator once, at creation: which call creates
            # them is then visible by design, so spurious queries only start after the first genuine query)
            sc.pop("update_first", None)
            sc["injections"] = [e for e in sc["injections"] if not (e["at"] < 0 or (e["at"] == 0 and e["slot"] == "pre"))]
        return sc

    # ---- executor
    def _inject(self, sc, ctx, drv, e, rows, k, slot, q, u, subj):
        for rep in range(e.get("repeat", 1)):
            fresh = (not drv.is_manager and not hasattr(drv.obj, "budget_manager_") and not any(a.endswith("_") for a in vars(drv.obj))) or (
                drv.is_manager and not any(a.endswith("_") for a in vars(drv.obj))
            )
            if fresh:
                ctx.probe("lazy_init_by_query")
            before = snapshot(drv.obj)
            g_before = np.random.get_state() if sc.get("unseeded") else None
            kind = e["kind"]
            r2 = rows if kind in ("dup", "noutil") else np.array(e["rows"], dtype=float)
            if drv.is_manager and kind not in ("dup", "noutil"):
                r2 = r2[:, 0]
            try:
                q2, u2 = drv.query_rows(r2, kind != "noutil")
            except Exception as ex:
                ctx.notes.append(f"spurious query raised {type(ex).__name__}")
                return "spurious-raised"
            ctx.fault({"dup": "spurious_dup", "foreign": "spurious_foreign", "noutil": "spurious_noutil", "resize": "spurious_resize"}[kind])
            if e.get("other_width"):
                ctx.probe("spurious_other_width")
            if slot == "mid":
                ctx.probe("spurious_between_query_and_update")
            if k < 0:
                ctx.probe("spurious_before_first_update")
            after = snapshot(drv.obj)
            changed = diff_keys({k_: v for k_, v in before.items()}, {k_: v for k_, v in after.items() if k_ in before})
            # attributes of a lazily created budget manager have no 'before'
            changed = [x for x in changed if not x.endswith("(presence)")]
            if g_before is not None:
                ctx.probe("global_generator_is_state")
                g_after = np.random.get_state()
                if not (np.array_equal(g_before[1], g_after[1]) and g_before[2:] == g_after[2:]):
                    changed.append("numpy.random (global generator used with random_state=None)")
            if changed:
                # judged at the end of the world: only attributes that update() itself advances (or a
                # generator) are 'state' in the sense of the property, not e.g. a diagnostic cache
                self._pending.append((changed, kind, k, slot))
            if kind in ("dup", "noutil") and slot == "mid":
                # identical arguments, identical answer
                if not same(list(np.asarray(q2).tolist()), list(np.asarray(q).tolist())) or (kind == "dup" and not same(u2, u)):
                    ctx.violate("repeat-differs", subj, f"repeated query at chunk {k} answered {list(q2)} instead of {list(q)}", cond={})
        return None

    def _run_world(self, sc, ctx: Ctx, with_injections, record):
        drv = Driver(sc["subject"], sc["clf"], sc["X"], sc["y"])
        subj = subject_name(sc["subject"])
        inj_by = {}
        if with_injections:
            for e in sc.get("injections", []):
                inj_by.setdefault((e["at"], e["slot"]), []).append(e)
        pos = 0
        last_inj_pos = -1
        np.random.seed(20240229)  # every world starts from the same process-global generator
        drop = set(sc.get("drop_updates", []))
        uf = sc.get("update_first")
        if uf:
            rows0 = np.array(uf["rows"], dtype=float)
            if drv.is_manager:
                rows0 = rows0[:, 0]
            for e in inj_by.get((-1, "pre"), []):
                err = self._inject(sc, ctx, drv, e, rows0, -1, "pre", None, None, subj)
                if err:
                    return drv, err
                last_inj_pos = -0.5
            snap_u0 = snapshot(drv.obj) if with_injections else None
            try:
                drv.update_rows(rows0, np.array(uf["queried"], dtype=int), np.array(uf["utilities"], dtype=float))
            except Exception as e:
                record.append(("update", -1, {"exc": type(e).__name__, "msg": str(e)[:80]}))
                return drv, "update-raised"
            record.append(("update", -1, None))
            if with_injections:
                snap_u1 = snapshot(drv.obj)
                self._upd_written.update(x for x in diff_keys(snap_u0, {k_: v for k_, v in snap_u1.items() if k_ in snap_u0}) if not x.endswith("(presence)"))
        pending = None  # labels acquired in the previous chunk arrive in two deliveries around the next "pre" slot
        for k, c in enumerate(sc["chunks"]):
            rows = drv.rows(pos, pos + c)
            if pending is not None:
                h = (len(pending[0]) + 1) // 2
                drv.clf_peer.learn(pending[0][:h], pending[1][:h], None, ctx)
            for slot in ("pre", "mid"):
                if slot == "mid":
                    if pending is not None:
                        h = (len(pending[0]) + 1) // 2
                        drv.clf_peer.learn(pending[0][h:], pending[1][h:], pending[2], ctx)
                        pending = None
                    if sc.get("unseeded"):
                        np.random.random_sample()  # the other user of the global generator
                    # the genuine query of this chunk
                    try:
                        q, u = drv.query_rows(rows, True)
                    except Exception as e:
                        record.append(("query", k, {"exc": type(e).__name__, "msg": str(e)[:80]}))
                        return drv, "query-raised"
                    record.append(("query", k, (list(np.asarray(q).tolist()), u)))
                    if with_injections is False:
                        self._probes_base(ctx, drv, sc, q, u, c)
                for e in inj_by.get((k, slot), []):
                    err = self._inject(sc, ctx, drv, e, rows, k, slot, q if slot == "mid" else None, u if slot == "mid" else None, subj)
                    if err:
                        return drv, err
                    last_inj_pos = pos
            # commit (unless the caller lost this chunk's report: the answer to a query is never reported back)
            if k in drop:
                ctx.fault("drop_update") if with_injections else None
                record.append(("update-dropped", k, None))
                pos += c
                ctx.sim_time += c
                continue
            snap_u0 = snapshot(drv.obj) if with_injections else None
            try:
                drv.update_rows(rows, q, u)
            except Exception as e:
                record.append(("update", k, {"exc": type(e).__name__, "msg": str(e)[:80]}))
                return drv, "update-raised"
            if with_injections:
                snap_u1 = snapshot(drv.obj)
                self._upd_written.update(x for x in diff_keys(snap_u0, {k_: v for k_, v in snap_u1.items() if k_ in snap_u0}) if not x.endswith("(presence)"))
            if not drv.is_manager and drv.clf_peer.kind == "pwc":
                ql = list(np.asarray(q, dtype=int).tolist())
                pending = ([rows[i] for i in ql], [drv.y[pos + i] for i in ql], pos + c)
            if with_injections and last_inj_pos > -1 and pos > last_inj_pos and len(q):
                ctx.probe("granted_after_last_injection")
            pos += c
            ctx.sim_time += c
        return drv, None

    def _probes_base(self, ctx, drv, sc, q, u, c):
        u = np.asarray(u, dtype=float)
        if np.isnan(u).any():
            ctx.probe("nan_utility_seen")
            ctx.fault("corrupt_utility")
        if c > 1 and 0 < len(q) < c:
            ctx.probe("budget_exhausted_inside_chunk")
        obj = drv.obj
        bm = getattr(obj, "budget_manager_", obj)
        if hasattr(bm, "random_state_") or hasattr(obj, "random_state_") and sc["subject"]["cls"] == "StreamRandomSampling":
            ctx.probe("rng_subject")
        for attr in ("window_", "cognition_window_", "history_sorted_"):
            win = getattr(obj, attr, None) if hasattr(obj, attr) else getattr(bm, attr, None)
            if win is not None:
                cap = getattr(win, "maxlen", None) or sc["subject"]["params"].get("cognition_window_size", 10**9)
                if len(win) >= cap:
                    ctx.probe("window_evicted")

    def execute(self, sc, keep_log=False):
        ctx = Ctx(self.prop, keep_log)
        subj = subject_name(sc["subject"])
        ctx.log.add("subject", sc["subject"])
        rec_r, rec_s = [], []
        self._pending, self._upd_written = [], set()
        try:
            _, err_r = self._run_world(sc, ctx, False, rec_r)
        except Exception as e:  # construction failed etc.
            ctx.notes.append(f"world R failed: {type(e).__name__}: {e}")
            return ctx.result(sig=self._sig(sc, ctx), extra={"aborted": True})
        if err_r is not None:
            ctx.notes.append(f"world R stopped: {err_r} {rec_r[-1]}")
        self._pending, self._upd_written = [], set()
        _, err_s = self._run_world(sc, ctx, True, rec_s)
        for changed, kind, k, slot in self._pending:
            state = [x for x in changed if x in self._upd_written or "random_state" in x or x.startswith("numpy.random")]
            if state:
                ctx.violate(
                    "state-changed-by-query",
                    subj,
                    f"spurious {kind} query at chunk {k} ({slot}) changed {state} (attributes that update() advances)",
                    cond={"attrs": sorted(set(x.split('.')[-1] for x in state))},
                )
                break
        for a in rec_r:
            ctx.log.add("R:" + a[0], a[2])
        for a in rec_s:
            ctx.log.add("S:" + a[0], a[2])
        if err_s in ("spurious-raised",):
            return ctx.result(sig=self._sig(sc, ctx), extra={"aborted": True, "notes": ctx.notes[:3]})
        # clause (i): every base operation answers alike in both worlds
        for i, (a, b) in enumerate(zip(rec_r, rec_s)):
            if not same(a[2], b[2]):
                ctx.violate(
                    "twin-divergence",
                    subj,
                    f"{a[0]} of chunk {a[1]} differs between the world with and without spurious queries: {_short(a[2])} vs {_short(b[2])}",
                    cond={},
                )
                break
        else:
            if len(rec_r) != len(rec_s):
                ctx.violate("twin-divergence", subj, f"worlds stopped at different operations ({len(rec_r)} vs {len(rec_s)}): {err_r} / {err_s}", cond={})
        aborted = err_r is not None and not ctx.violations
        return ctx.result(sig=self._sig(sc, ctx), extra={"aborted": aborted, "notes": ctx.notes[:3]})

    def _sig(self, sc, ctx):
        n = sum(sc["chunks"])
        return "|".join(
            [
                subject_name(sc["subject"]),
                (sc.get("clf") or {}).get("kind", "-"),
                ",".join(sorted(ctx.faults)),
                ",".join(sorted(ctx.probes)),
                str(int(math.log2(max(n, 1)))),
                str(min(3, max(sc["chunks"]))),
            ]
        )

    def nontrivial(self, res):
        p = res["probes"]
        return bool(res["faults"]) and p.get("granted_after_last_injection", 0) > 0 and (p.get("spurious_between_query_and_update", 0) > 0 or p.get("lazy_init_by_query", 0) > 0)

    def shrink(self, sc):
        if sc.get("drop_updates"):
            c = copy.deepcopy(sc)
            del c["drop_updates"]
            yield c
        yield from self.shrink_common(sc)
        if sc.get("update_first"):
            c = copy.deepcopy(sc)
            del c["update_first"]
            c["injections"] = [i for i in c["injections"] if i["at"] >= 0]
            yield c
            if len(sc["update_first"]["rows"]) > 1:
                c = copy.deepcopy(sc)
                c["update_first"] = {"rows": sc["update_first"]["rows"][:1], "queried": [q for q in sc["update_first"]["queried"] if q < 1], "utilities": sc["update_first"]["utilities"][:1]}
                yield c
        for j, e in enumerate(sc.get("injections", [])):
            if e.get("repeat", 1) > 1:
                c = copy.deepcopy(sc)
                c["injections"][j]["repeat"] = 1
                yield c
            if e["kind"] in ("foreign", "resize") and len(e["rows"]) > 1:
                c = copy.deepcopy(sc)
                c["injections"][j]["rows"] = e["rows"][:1]
                yield c


def _short(x):
    s = repr(x)
    return s if len(s) < 160 else s[:157] + "..."


# --------------------------------------------------------------------------
# C04 -- budget managers never overspend
# --------------------------------------------------------------------------

ENFORCING_MANAGERS = WINDOW_MANAGERS + ["DensityBasedSplitBudgetManager"]


class C04Check(StreamCheckBase):
    prop = "C04"
    rule = (
        "run = one budget-enforcing subject x one adversarial utility stream x one chunking (x optional spurious queries); "
        "oracle = per-grant reference model of the running estimate + prefix bound at every n. Non-trivial: the budget guard "
        "actually refused at least one instance whose utility alone would have been granted, or a chunk crossed the budget limit. "
        "Distinct by (subject, adversary family, probe set, budget bucket, window, size bucket)."
    )
    fault_kinds = ["corrupt_utility", "rechunk", "spurious_dup", "rebudget", "rewindow", "update_before_first_query", "strategy_handover", "rejected_update_retried"]
    probes_expected = ["budget_exhausted_inside_chunk", "guard_refused", "grant_at_exact_bound", "nan_utility_seen", "w_eq_1", "budget_eq_1"]
    assumptions = [
        "the caller reports to update exactly what query returned (honest caller)",
        "density-based and cognitive strategies are driven one instance per call (inside a chunk they consult the manager without committing; the property is about managers)",
        "BalancedIncrementalQuantileFilter is not budget enforcing and is not a subject",
    ]
    tiers = {"quick": {"runs": 7000, "wall_cap": 600}, "thorough": {"runs": 140000, "wall_cap": 3300}}
    chunk = 30

    def generate(self, rng: SimRng):
        g = rng.fork("workload")
        f = rng.fork("faults")
        classes = [0, 1] if g.chance(0.7) else [0, 1, 2]
        r = g.random()
        if r < 0.5:
            subject = gen_manager(g, g.pick(ENFORCING_MANAGERS), classes=classes)
        elif r < 0.62:
            subject = gen_strategy(g, g.pick(["PeriodicSampling", "StreamRandomSampling"]))
            if subject["cls"] == "StreamRandomSampling":
                subject["params"]["allow_exceeding_budget"] = False
        elif r < 0.85:
            subject = gen_strategy(g, g.pick(ZLIOBAITE), classes=classes, manager_pool=ENFORCING_MANAGERS)
        else:
            subject = gen_strategy(g, g.pick(["StreamDensityBasedAL"] + COGNITIVE), classes=classes, manager_pool=ENFORCING_MANAGERS)
        p = subject["params"]
        bm = p.get("budget_manager") if isinstance(p.get("budget_manager"), dict) else None
        w = (bm or subject)["params"].get("w", 100)
        budget = (bm["params"]["budget"] or 0.1) if bm else (p.get("budget") or 0.1)
        n = g.pick([30, 60, 120, 250, 400] + ([1000, 3000] if self.tier == "thorough" and subject["kind"] == "manager" else []))
        family = g.pick(ADVERSARIES)
        sc = {"engine": "streamsim", "mode": "C04", "subject": subject, "family": family}
        corrupt_rate = f.pick([0.0, 0.0, 0.05, 0.3])
        if subject["kind"] == "manager":
            u = gen_utilities(g, n, family, budget)
            if corrupt_rate:
                u, _ = corrupt(f, u, corrupt_rate)
            sc["X"] = [[float(x)] for x in u]
            sc["clf"] = None
        else:
            d = g.pick([2, 3])
            X, _ = gen_stream_stub(g, n, d, family, budget, corrupt_rate)
            sc["X"] = X.tolist()
            sc["clf"] = {"kind": "stub", "classes": classes}
            add_train_set(g, sc["clf"], subject, d, len(classes))
        sc["y"] = None
        one_by_one = subject["cls"] in COGNITIVE + ["StreamDensityBasedAL"]
        sc["chunks"] = [1] * n if one_by_one else gen_chunks(f, n, int(w))
        sc["injections"] = []
        if f.chance(0.3):
            for _ in range(f.pick([1, 3, 8])):
                sc["injections"].append({"at": f.randrange(len(sc["chunks"])), "slot": f.pick(["pre", "mid"]), "kind": "dup", "repeat": 1})
        if subject["kind"] == "manager" and len(sc["chunks"]) > 3 and f.chance(0.25):
            # the caller re-configures the used manager (set_params) between two chunks
            sc["rebudget"] = {"at": f.randrange(1, len(sc["chunks"]) - 1), "budget": f.pick([0.05, 0.1, 0.3, round(f.log_uniform(0.02, 0.9), 3)])}
        elif subject["kind"] == "manager" and subject["cls"] in WINDOW_MANAGERS and len(sc["chunks"]) > 3 and f.chance(0.2):
            # ... or gives it another window (the estimate u_t_ is carried over, documented state)
            sc["rewindow"] = {"at": f.randrange(1, len(sc["chunks"]) - 1), "w": f.pick([1, 2, 5, 10, 100, 4 * int(w)])}
        if subject["kind"] == "strategy" and "budget_manager" not in p and subject["cls"] in ZLIOBAITE + ["StreamDensityBasedAL", "CognitiveDualQueryStrategy"] and len(sc["chunks"]) > 3 and f.chance(0.12):
            # the caller re-creates the strategy in the middle of the stream and hands it the used manager
            # (budget_manager=old.budget_manager_): the manager's spending record travels with it
            sc["handover"] = {"at": f.randrange(1, len(sc["chunks"]) - 1)}
        if len(sc["chunks"]) > 2 and f.chance(0.12):
            # a report with indices that do not belong to the chunk is refused by update and repeated correctly
            sc["bad_updates"] = sorted(f.sample(range(len(sc["chunks"])), f.pick([1, 1, 2])))
        if f.chance(0.15):
            # a warm-up chunk is reported through update() before the first query (no label acquired):
            # update, not query, performs the lazy initialisation
            m0 = f.pick([1, 1, 3, 8])
            if subject["kind"] == "manager":
                rows0 = [[float(x)] for x in gen_utilities(f.fork("uf"), m0, f.pick(ADVERSARIES), budget)]
            else:
                rows0 = np.array(sc["X"])[f.np("uf").randint(0, len(sc["X"]), m0)].tolist()
            sc["update_first"] = {"rows": rows0, "utilities": np.round(f.np("ufu").random_sample(m0), 6).tolist()}
        return sc

    # reference models -------------------------------------------------
    @staticmethod
    def model_for(sc):
        spec = sc["subject"]
        cls = spec["cls"]
        p = spec["params"]
        mgr = effective_manager(spec)
        bm = p.get("budget_manager") if isinstance(p.get("budget_manager"), dict) else None
        mp = bm["params"] if bm else p
        budget = mp.get("budget")
        if budget is None and not bm:
            budget = p.get("budget")
        if budget is None:
            # documented: a given budget manager is used as it is (its open budget defaults to 0.1), the
            # strategy's own budget is then not used
            budget = 0.1
        if cls == "PeriodicSampling":
            return {"kind": "counter", "budget": budget, "slack": 0.0}
        if cls == "StreamRandomSampling":
            return {"kind": "counter", "budget": budget, "slack": 0.0}
        if mgr in WINDOW_MANAGERS:
            return {"kind": "window", "budget": budget, "w": mp.get("w", 100)}
        if mgr == "DensityBasedSplitBudgetManager":
            return {"kind": "density", "budget": budget}
        return None

    def execute(self, sc, keep_log=False):
        ctx = Ctx(self.prop, keep_log)
        subj = subject_name(sc["subject"])
        model = self.model_for(sc)
        if model is None:
            return ctx.result(sig=subj + "|nomodel", extra={"aborted": True})
        try:
            drv = Driver(sc["subject"], sc["clf"], sc["X"], sc["y"])
        except Exception as e:
            ctx.notes.append(repr(e))
            return ctx.result(sig=subj + "|ctor", extra={"aborted": True})
        budget = float(model["budget"])
        if budget == 1.0:
            ctx.probe("budget_eq_1")
        if model.get("w") == 1:
            ctx.probe("w_eq_1")
        inj_by = {}
        for e in sc.get("injections", []):
            inj_by.setdefault((e["at"], e["slot"]), []).append(e)
        grants = []  # 0/1 per instance
        pos = 0
        u_model = 0.0
        t_model = 0
        q_total = 0
        aborted = False
        n_at_rebudget = 0
        q_at_rebudget = 0
        n_warm = 0
        uf = sc.get("update_first")
        if uf:
            rows0 = np.array(uf["rows"], dtype=float)
            if drv.is_manager:
                rows0 = rows0[:, 0]
            try:
                drv.update_rows(rows0, np.array([], dtype=int), np.array(uf["utilities"], dtype=float))
            except Exception as e:
                ctx.notes.append(f"warm-up update raised {type(e).__name__}: {e}")
                return ctx.result(sig=subj + "|warmup-raised", extra={"aborted": True, "notes": ctx.notes[:3]})
            ctx.fault("update_before_first_query")
            n_warm = len(rows0)
            # the warm-up instances were seen and not labelled
            if model["kind"] == "window":
                for _ in range(n_warm):
                    u_model = u_model * ((model["w"] - 1) / model["w"])
            elif model["kind"] == "density":
                t_model += n_warm
        for k, c in enumerate(sc["chunks"]):
            rows = drv.rows(pos, pos + c)
            rw = sc.get("rewindow")
            if rw and rw["at"] == k:
                try:
                    drv.obj.set_params(w=int(rw["w"]))
                except Exception as e:
                    ctx.notes.append(f"set_params raised {e!r}")
                    aborted = True
                    break
                model["w"] = int(rw["w"])
                ctx.fault("rewindow")
                n_at_rebudget, q_at_rebudget = max(pos, 1), q_total
            ho = sc.get("handover")
            if ho and ho["at"] == k and hasattr(drv.obj, "budget_manager_"):
                try:
                    spec2 = copy.deepcopy(sc["subject"])
                    new_obj = build(spec2)
                    new_obj.set_params(budget_manager=drv.obj.budget_manager_, budget=None)
                    drv.obj = new_obj
                    ctx.fault("strategy_handover")
                except Exception as e:
                    ctx.notes.append(f"handover failed {e!r}")
                    aborted = True
                    break
            rb = sc.get("rebudget")
            if rb and rb["at"] == k:
                try:
                    drv.obj.set_params(budget=rb["budget"])
                except Exception as e:
                    ctx.notes.append(f"set_params raised {e!r}")
                    aborted = True
                    break
                budget = float(rb["budget"])
                ctx.fault("rebudget")
                # the prefix bound restarts with the new budget (labels granted so far are history)
                n_at_rebudget, q_at_rebudget = pos, q_total
            try:
                for e in inj_by.get((k, "pre"), []):
                    drv.query_rows(rows, True)
                    ctx.fault("spurious_dup")
                q, u = drv.query_rows(rows, True)
                for e in inj_by.get((k, "mid"), []):
                    drv.query_rows(rows, True)
                    ctx.fault("spurious_dup")
            except Exception as e:
                ctx.notes.append(f"query raised {type(e).__name__}: {e}")
                aborted = True
                break
            ql = set(int(i) for i in np.asarray(q, dtype=int).tolist())
            uu = np.asarray(u, dtype=float)
            if np.isnan(uu).any() or np.isinf(uu).any():
                ctx.probe("nan_utility_seen")
                ctx.fault("corrupt_utility")
            if c > 1:
                ctx.fault("rechunk")
                if 0 < len(ql) < c:
                    ctx.probe("budget_exhausted_inside_chunk")
            ctx.log.add("query", (sorted(ql), uu))
            # per-instance oracle
            for i in range(c):
                g_i = 1 if i in ql else 0
                n_seen = n_warm + pos + i + 1
                if model["kind"] == "window":
                    w = model["w"]
                    est = u_model / w
                    if g_i:
                        if est >= budget and (est == budget or est - budget > 1e-12 * max(1.0, abs(budget))):
                            ctx.violate(
                                "grant-without-budget",
                                subj,
                                f"instance {n_seen - 1} granted although the running estimate {est!r} is not below budget {budget!r} (w={w})",
                                cond={"manager": effective_manager(sc["subject"])},
                            )
                    else:
                        if est >= budget:
                            ctx.probe("guard_refused")
                    u_model = u_model * ((w - 1) / w) + g_i
                elif model["kind"] == "density":
                    t_model += 1
                    est = u_model / t_model
                    if g_i:
                        if est >= budget and (est == budget or est - budget > 1e-12):
                            ctx.violate(
                                "grant-without-budget",
                                subj,
                                f"instance {n_seen - 1} granted although spent fraction {est!r} is not below budget {budget!r}",
                                cond={"manager": "DensityBasedSplitBudgetManager"},
                            )
                    elif est >= budget:
                        ctx.probe("guard_refused")
                    u_model += g_i
                q_total += g_i
                grants.append(g_i)
                # prefix bound at every n
                n_eff = n_seen - n_at_rebudget
                if model["kind"] == "window":
                    w = model["w"]
                    # after a re-configuration the estimate carried over from the old budget may need up to
                    # w * ln(.) steps to decay: the bound is only claimed from a fresh start
                    bound = budget * n_eff + n_eff / w + budget * w + 1 + (q_total if n_at_rebudget else 0) * 0 + (np.inf if n_at_rebudget else 0)
                elif model["kind"] == "density":
                    bound = budget * n_seen + 1 if not n_at_rebudget else np.inf
                else:
                    bound = budget * n_seen
                if q_total > bound + 1e-9:
                    ctx.violate(
                        "prefix-bound",
                        subj,
                        f"{q_total} labels granted among the first {n_seen} instances, bound {bound!r} (budget {budget!r})",
                        cond={"manager": effective_manager(sc["subject"]) or sc["subject"]["cls"]},
                    )
                    break
                if model["kind"] == "counter" and g_i and abs(q_total - bound) < 1e-9:
                    ctx.probe("grant_at_exact_bound")
                if model["kind"] == "counter" and not g_i and q_total + 1 > bound + 1e-9:
                    ctx.probe("guard_refused")
            if ctx.violations:
                break
            if k in set(sc.get("bad_updates", [])):
                # indices beyond the chunk: must be refused; the correct report follows
                try:
                    drv.update_rows(rows, np.array([c + 3], dtype=int), u)
                    ctx.notes.append("update accepted an index outside the chunk")
                    aborted = True
                    break
                except Exception:
                    ctx.fault("rejected_update_retried")
            try:
                drv.update_rows(rows, q, u)
            except Exception as e:
                ctx.notes.append(f"update raised {type(e).__name__}: {e}")
                aborted = True
                break
            pos += c
            ctx.sim_time += c
        sig = "|".join(
            [
                subj,
                sc["family"],
                ",".join(sorted(ctx.probes)),
                f"b{int(budget * 10)}",
                f"w{model.get('w', 0)}",
                str(int(math.log2(max(pos, 1)))),
            ]
        )
        return ctx.result(sig=sig, extra={"aborted": aborted and not ctx.violations, "notes": ctx.notes[:3], "grants": int(sum(grants))})

    def nontrivial(self, res):
        p = res["probes"]
        return p.get("guard_refused", 0) > 0 or p.get("budget_exhausted_inside_chunk", 0) > 0

    def shrink(self, sc):
        yield from self.shrink_common(sc)


# --------------------------------------------------------------------------
# C10 -- update commits exactly what query simulated
# --------------------------------------------------------------------------

CHUNK_INVARIANT_MANAGERS = [
    "FixedUncertaintyBudgetManager",
    "VariableUncertaintyBudgetManager",
    "SplitBudgetManager",
    "RandomBudgetManager",
    "BalancedIncrementalQuantileFilter",
]
CHUNK_INVARIANT_STRATEGIES = ["FixedUncertainty", "VariableUncertainty", "Split", "StreamRandomSampling", "PeriodicSampling", "StreamProbabilisticAL"]


def chunk_invariance_claimed(spec):
    if spec["kind"] == "manager":
        return spec["cls"] in CHUNK_INVARIANT_MANAGERS
    if spec["cls"] in ("StreamRandomSampling", "PeriodicSampling"):
        return True
    if spec["cls"] in CHUNK_INVARIANT_STRATEGIES:
        return effective_manager(spec) in CHUNK_INVARIANT_MANAGERS
    return False


class C10Check(StreamCheckBase):
    prop = "C10"
    rule = (
        "run = one subject x one stream, delivered twice: one instance per query/update and under a seeded chunking (coalesced / split "
        "deliveries); protocol acceptance is judged for every subject, chunk invariance of decisions and final state for the subjects "
        "the property names. Non-trivial: some chunk of size > 1 was only partly granted (budget limit crossed inside a chunk) or a "
        "density filter accepted a later and rejected an earlier instance of one chunk. Distinct by (subject, manager, probe set, "
        "max chunk bucket, size bucket)."
    )
    fault_kinds = ["rechunk", "corrupt_utility"]
    probes_expected = ["budget_exhausted_inside_chunk", "filter_earlier_rejected_later_accepted", "chunk_gt_w", "invariance_compared", "protocol_checked"]
    assumptions = [
        "chunk invariance is only demanded for the managers/strategies named in the property and with the classifier held fixed over the stream",
        "float state is compared to 1e-12 relative (re-association of float operations is not a defect), counters and generator state exactly",
    ]
    tiers = {"quick": {"runs": 6000, "wall_cap": 600}, "thorough": {"runs": 120000, "wall_cap": 3300}}
    chunk = 20

    def generate(self, rng: SimRng):
        g = rng.fork("workload")
        f = rng.fork("faults")
        classes = [0, 1] if g.chance(0.7) else [0, 1, 2]
        r = g.random()
        if r < 0.35:
            subject = gen_manager(g, g.pick(MANAGERS), classes=classes)
        elif r < 0.75:
            cls = g.pick(CHUNK_INVARIANT_STRATEGIES + ["RandomVariableUncertainty"])
            subject = gen_strategy(g, cls, classes=classes)
        else:
            subject = gen_strategy(g, g.pick(["StreamDensityBasedAL"] + COGNITIVE), classes=classes)
        p = subject["params"]
        bm = p.get("budget_manager") if isinstance(p.get("budget_manager"), dict) else None
        w = (bm or subject)["params"].get("w", p.get("window_size", p.get("cognition_window_size", 10)))
        budget = (bm["params"]["budget"] or 0.1) if bm else (p.get("budget") or 0.1)
        n = g.pick([12, 30, 60, 120, 250] + ([1000, 2500] if self.tier == "thorough" and subject["kind"] == "manager" else []))
        if subject["cls"] in COGNITIVE + ["StreamDensityBasedAL"]:
            n = min(n, 120)
        family = g.pick(ADVERSARIES)
        sc = {"engine": "streamsim", "mode": "C10", "subject": subject, "family": family, "y": None}
        if subject["kind"] == "manager":
            u = gen_utilities(g, n, family, budget)
            if f.chance(0.2):
                u, _ = corrupt(f, u, 0.05)
            sc["X"] = [[float(x)] for x in u]
            sc["clf"] = None
        else:
            d = g.pick([2, 3, 3])
            X, _ = gen_stream_stub(g, n, d, family, budget, 0.0)
            sc["X"] = X.tolist()
            sc["clf"] = {"kind": "stub", "classes": classes}
            add_train_set(g, sc["clf"], subject, d, len(classes))
        style = f.pick(["small", "mixed", "large", "whole", "alternating"])
        sc["chunks"] = gen_chunks(f, n, int(w), style)
        return sc

    def _run(self, sc, chunks, ctx, judge_protocol):
        drv = Driver(sc["subject"], sc["clf"], sc["X"], sc["y"])
        subj = subject_name(sc["subject"])
        decisions = []
        self._utils = []
        if not hasattr(self, "_upd_written"):
            self._upd_written = set()
        pos = 0
        p = sc["subject"]["params"]
        for k, c in enumerate(chunks):
            rows = drv.rows(pos, pos + c)
            try:
                q, u = drv.query_rows(rows, True)
            except Exception as e:
                ctx.notes.append(f"query raised {type(e).__name__}: {e}")
                return None, drv, "query-raised"
            if judge_protocol:
                ctx.probe("protocol_checked")
                bad = check_indices_wellformed(q, c)
                if bad:
                    ctx.violate("indices-malformed", subj, f"query on chunk {k} (size {c}) returned {_short(q)}: {bad}", cond={})
                    return None, drv, "malformed"
                try:
                    ulen = len(u)
                except TypeError:
                    ulen = -1
                if ulen != c:
                    ctx.violate("utilities-length", subj, f"query on chunk {k} (size {c}) returned {ulen} utilities", cond={})
                    return None, drv, "malformed"
                if c > 1:
                    ctx.fault("rechunk")
                    if 0 < len(q) < c:
                        ctx.probe("budget_exhausted_inside_chunk")
                        qs_ = sorted(int(i) for i in q)
                        if qs_[-1] > len(qs_) - 1:
                            # an earlier instance of the chunk was refused, a later one granted
                            ctx.probe("filter_earlier_rejected_later_accepted")
                    if np.asarray(u, dtype=float).size and not np.isfinite(np.asarray(u, dtype=float)).all():
                        ctx.fault("corrupt_utility")
                    if c > int((p.get("w") or 10**9)):
                        ctx.probe("chunk_gt_w")
            ql = [int(i) for i in q]
            snap_u0 = snapshot(drv.obj)
            try:
                drv.update_rows(rows, q, u)
                snap_u1 = snapshot(drv.obj)
                self._upd_written.update(x for x in diff_keys(snap_u0, {k_: v for k_, v in snap_u1.items() if k_ in snap_u0}) if not x.endswith("(presence)"))
            except Exception as e:
                if judge_protocol:
                    cond = {"chunked": c > 1}
                    if "force_full_budget" in p:
                        cond["force_full_budget"] = p["force_full_budget"]
                    ctx.violate(
                        "update-rejects-query-result",
                        subj,
                        f"update(chunk {k}, size {c}, queried={ql}) raised {type(e).__name__}: {str(e)[:120]}",
                        cond=cond,
                    )
                return None, drv, "update-raised"
            decisions.extend(pos + i for i in ql)
            self._utils.extend(np.asarray(u, dtype=float).tolist())
            pos += c
            ctx.sim_time += c
        return decisions, drv, None

    def execute(self, sc, keep_log=False):
        ctx = Ctx(self.prop, keep_log)
        subj = subject_name(sc["subject"])
        n = sum(sc["chunks"])
        self._upd_written = set()
        try:
            dec_k, drv_k, err_k = self._run(sc, sc["chunks"], ctx, True)
        except Exception as e:
            ctx.notes.append(repr(e))
            return ctx.result(sig=subj + "|ctor", extra={"aborted": True})
        ctx.log.add("chunked", dec_k)
        aborted = err_k == "query-raised"
        if dec_k is not None and chunk_invariance_claimed(sc["subject"]) and any(c > 1 for c in sc["chunks"]):
            utils_k = self._utils
            dec_1, drv_1, err_1 = self._run(sc, [1] * n, ctx, False)
            ctx.log.add("one-by-one", dec_1)
            if dec_1 is None:
                aborted = True
            elif not same(utils_k, self._utils) and sc["subject"]["cls"] != "PeriodicSampling":
                # (PeriodicSampling's utilities are its decisions, not an input to a manager: always judged)
                # the utility stream itself differs in the last bits between batched and
                # single evaluation (BLAS kernels): the managers saw different inputs, so
                # their decisions are not comparable -- no verdict
                ctx.probe("utilities_not_bitwise_equal")
            else:
                ctx.probe("invariance_compared")
                mgr = effective_manager(sc["subject"]) or sc["subject"]["cls"]
                if dec_1 != dec_k:
                    first = next((a for a, b in zip(dec_1 + [None], dec_k + [None]) if a != b), None)
                    ctx.violate(
                        "chunking-changes-decisions",
                        subj,
                        f"labels granted one-by-one {len(dec_1)} vs chunked {len(dec_k)} (chunks {sc['chunks'][:12]}...), first difference near instance {first}",
                        cond={"manager": mgr},
                    )
                else:
                    # "the resulting budget/threshold state": the attributes update() advances (and generators),
                    # not e.g. a diagnostic cache written by query
                    s1, sk = flat_state(raw_state(drv_1.obj)), flat_state(raw_state(drv_k.obj))
                    judged = [k for k in sorted(set(s1) | set(sk)) if k in self._upd_written or "random_state" in k]
                    keys = [k for k in judged if k not in s1 or k not in sk or not close(s1[k], sk[k], rtol=1e-12, atol=1e-13)]
                    if keys:
                        ctx.violate(
                            "chunking-changes-state",
                            subj,
                            f"final state differs between one-by-one and chunked delivery in {keys}",
                            cond={"manager": mgr},
                        )
        # density filter probe (cheap re-derivation: a chunk where a later instance is queried but an earlier not)
        sig = "|".join([subj, ",".join(sorted(ctx.probes)), str(min(4, int(math.log2(max(sc['chunks'])))) if sc["chunks"] else 0), str(int(math.log2(max(n, 1))))])
        return ctx.result(sig=sig, extra={"aborted": aborted and not ctx.violations, "notes": ctx.notes[:3]})

    def nontrivial(self, res):
        p = res["probes"]
        return p.get("budget_exhausted_inside_chunk", 0) > 0

    def shrink(self, sc):
        yield from self.shrink_common(sc)
        # merge / split chunks
        ch = sc["chunks"]
        for j in range(len(ch)):
            if ch[j] > 1:
                c = copy.deepcopy(sc)
                c["chunks"] = ch[:j] + [1] * ch[j] + ch[j + 1 :]
                yield c
