"""E3 lifesim -- estimator life cycles (C13, narrowed C11 and C15).

Parties: the estimator under test (real), for the wrappers a wrapped
scikit-learn estimator that is real or real-behind-a-fault-injector (raises
from fit / partial_fit *before touching any state* when the scheduler arms a
fault), and the caller issuing fit / partial_fit / predict* / sample_y in a
scheduler-chosen order on data sets that differ in size, scale, dimensionality,
label pattern and weights.

Simulated time = operation index.
"""
from __future__ import annotations

import copy
import math
from collections import deque

import numpy as np

from ..core import Ctx, SimRng, canon, close
from ..runner import Check

# --------------------------------------------------------------------------
# fault injector (a collaborator outside the library's control)
# --------------------------------------------------------------------------

_FAULT = {"armed": False, "fired": 0}
_FAULTY = {}


def faulty_classes():
    if _FAULTY:
        return _FAULTY
    from sklearn.base import BaseEstimator, ClassifierMixin, RegressorMixin, clone
    from sklearn.utils.validation import check_is_fitted

    class _FaultyBase(BaseEstimator):
        def __init__(self, est=None):
            self.est = est

        def _maybe_fail(self):
            if _FAULT["armed"]:
                _FAULT["fired"] += 1
                raise RuntimeError("injected: wrapped estimator cannot be fitted")

        def fit(self, X, y, sample_weight=None):
            self._maybe_fail()  # before touching any state
            est = clone(self.est)
            if sample_weight is not None:
                est.fit(X, y, sample_weight=sample_weight)
            else:
                est.fit(X, y)
            self.est_ = est
            if hasattr(est, "classes_"):
                self.classes_ = est.classes_
            return self

        def predict(self, X, **kw):
            check_is_fitted(self, "est_")
            return self.est_.predict(X, **kw)

    class FaultyClassifier(ClassifierMixin, _FaultyBase):
        def partial_fit(self, X, y, classes=None, sample_weight=None):
            self._maybe_fail()
            if not hasattr(self, "est_"):
                self.est_ = clone(self.est)
            kw = {} if sample_weight is None else {"sample_weight": sample_weight}
            self.est_.partial_fit(X, y, classes=classes, **kw)
            self.classes_ = self.est_.classes_
            return self

        def predict_proba(self, X):
            check_is_fitted(self, "est_")
            return self.est_.predict_proba(X)

    class FaultyRegressor(RegressorMixin, _FaultyBase):
        def partial_fit(self, X, y, sample_weight=None):
            self._maybe_fail()
            if not hasattr(self, "est_"):
                self.est_ = clone(self.est)
            kw = {} if sample_weight is None else {"sample_weight": sample_weight}
            self.est_.partial_fit(X, y, **kw)
            return self

        def predict(self, X, return_std=False):
            check_is_fitted(self, "est_")
            if return_std:
                return self.est_.predict(X, return_std=True)
            return self.est_.predict(X)

    _FAULTY.update(clf=FaultyClassifier, reg=FaultyRegressor)
    return _FAULTY


# --------------------------------------------------------------------------
# subjects
# --------------------------------------------------------------------------


def sk_estimator(name, seed=0, extra=None):
    est = _sk_estimator(name, seed)
    if extra:
        est.set_params(**extra)
    return est


def _sk_estimator(name, seed=0):
    from sklearn.ensemble import RandomForestClassifier
    from sklearn.gaussian_process import GaussianProcessRegressor
    from sklearn.cross_decomposition import PLSRegression
    from sklearn.linear_model import ARDRegression, BayesianRidge, LinearRegression, LogisticRegression, SGDClassifier, SGDRegressor
    from sklearn.naive_bayes import GaussianNB
    from sklearn.tree import DecisionTreeClassifier, DecisionTreeRegressor

    return {
        "gnb": lambda: GaussianNB(),
        "lr": lambda: LogisticRegression(random_state=seed),
        "dtc": lambda: DecisionTreeClassifier(random_state=seed, max_depth=3),
        "sgdc": lambda: SGDClassifier(loss="log_loss", random_state=seed, max_iter=50, tol=None),
        # estimators that carry state of their own from one fit to the next unless the wrapper copies them afresh
        "rf_warm": lambda: RandomForestClassifier(n_estimators=3, warm_start=True, random_state=seed, max_depth=3),
        "dtc_rs": lambda: DecisionTreeClassifier(random_state=np.random.RandomState(seed), max_features=1, max_depth=3, splitter="random"),
        "linreg": lambda: LinearRegression(),
        "dtr": lambda: DecisionTreeRegressor(random_state=seed, max_depth=3),
        "sgdr": lambda: SGDRegressor(random_state=seed, max_iter=50, tol=None),
        "gpr": lambda: GaussianProcessRegressor(random_state=seed),
        "bayridge": lambda: BayesianRidge(),
        # regressors that cannot be fitted on a single sample (the wrapper's documented fall-back arises naturally)
        "ard": lambda: ARDRegression(),
        "pls": lambda: PLSRegression(n_components=1),
    }[name]()


PARTIAL_FIT_OK = {"gnb", "sgdc", "sgdr"}
CLF_KINDS = ["pwc", "mixture", "skl_clf", "sliding", "annot_ens", "annot_lr"]
REG_KINDS = ["nic", "nwr", "skl_reg", "skl_normal"]


def build(spec, owned=None):
    """Construct the estimator under test from a JSON spec.

    ``owned`` collects caller-owned dict objects handed in as parameters so
    that the oracle can compare them with their construction-time content.
    """
    from skactiveml.classifier import MixtureModelClassifier, ParzenWindowClassifier, SklearnClassifier, SlidingWindowClassifier
    from skactiveml.classifier.multiannotator import AnnotatorEnsembleClassifier, AnnotatorLogisticRegression
    from skactiveml.regressor import NICKernelRegressor, NadarayaWatsonRegressor, SklearnNormalRegressor, SklearnRegressor

    spec = copy.deepcopy(spec)
    k = spec["kind"]
    p = spec.get("params", {})
    if spec.get("str_labels") and "classes" in p:
        # the caller names the classes with strings and marks a missing label with None
        p["classes"] = [label_name(c) for c in p["classes"]]
        p["missing_label"] = None
    if owned is not None:
        for name, v in p.items():
            if isinstance(v, dict):
                owned[name] = v
    if "cost_matrix" in p and p["cost_matrix"] is not None:
        p["cost_matrix"] = np.array(p["cost_matrix"], dtype=float)
    F = faulty_classes()
    if k == "pwc":
        return ParzenWindowClassifier(**p)
    if k == "mixture":
        from sklearn.mixture import BayesianGaussianMixture

        mm = p.pop("mixture", None)
        if mm is not None:
            p["mixture_model"] = BayesianGaussianMixture(n_components=mm["n"], random_state=mm["seed"])
        return MixtureModelClassifier(**p)
    if k == "skl_clf":
        est = sk_estimator(spec["est"], spec.get("est_seed", 0), spec.get("est_params"))
        if spec.get("faulty", True):
            est = F["clf"](est)
        return SklearnClassifier(est, **p)
    if k == "sliding":
        inner = build(spec["inner"])
        return SlidingWindowClassifier(inner, **p)
    if k == "annot_ens":
        ests = [(f"e{i}", build(s)) for i, s in enumerate(spec["members"])]
        return AnnotatorEnsembleClassifier(ests, **p)
    if k == "annot_lr":
        return AnnotatorLogisticRegression(**p)
    if k == "nic":
        return NICKernelRegressor(**p)
    if k == "nwr":
        return NadarayaWatsonRegressor(**p)
    if k in ("skl_reg", "skl_normal"):
        est = sk_estimator(spec["est"], spec.get("est_seed", 0))
        if spec.get("faulty", True):
            est = F["reg"](est)
        return (SklearnRegressor if k == "skl_reg" else SklearnNormalRegressor)(est, **p)
    raise KeyError(k)


def subject_name(spec):
    k = spec["kind"]
    names = {
        "pwc": "ParzenWindowClassifier",
        "mixture": "MixtureModelClassifier",
        "skl_clf": "SklearnClassifier",
        "sliding": "SlidingWindowClassifier",
        "annot_ens": "AnnotatorEnsembleClassifier",
        "annot_lr": "AnnotatorLogisticRegression",
        "nic": "NICKernelRegressor",
        "nwr": "NadarayaWatsonRegressor",
        "skl_reg": "SklearnRegressor",
        "skl_normal": "SklearnNormalRegressor",
    }
    return names[k]


def reconfig_options(spec):
    """(path in the spec, set_params key, new value) triples that are legal re-configurations."""
    k = spec["kind"]
    if k == "sliding":
        return [["params.window_size", "window_size", v] for v in (1, 2, 4, 8, None) if v != spec["params"].get("window_size")]
    if k == "pwc":
        return [["params.n_neighbors", "n_neighbors", v] for v in (1, 3, None) if v != spec["params"].get("n_neighbors")] + [["params.class_prior", "class_prior", v] for v in (0.0, 1.0) if v != spec["params"].get("class_prior", 0.0)]
    if k == "skl_clf" and spec["est"] in ("dtc", "dtc_rs", "rf_warm"):
        return [["est_params.max_depth", "estimator__est__max_depth", v] for v in (1, 2, None)]
    opts = []
    if k in ("nic",):
        opts += [["params.kappa_0", "kappa_0", v] for v in (0.5, 2.0)]
    if k in REG_KINDS and spec.get("params", {}).get("missing_label") is None:
        # from now on the caller marks missing targets with a sentinel instead of NaN
        opts += [["params.missing_label", "missing_label", -12345.0]]
    return opts


def apply_reconfig(spec, change):
    path, _, value = change
    spec = copy.deepcopy(spec)
    top, key = path.split(".")
    spec.setdefault(top, {})[key] = value
    return spec


def is_clf(spec):
    return spec["kind"] in CLF_KINDS


def n_annot(spec):
    if spec["kind"] == "annot_ens":
        return len(spec["members"])
    if spec["kind"] == "annot_lr":
        return spec.get("n_annotators", 2)
    return 0


def supports_partial_fit(spec):
    if spec["kind"] in ("skl_clf", "skl_reg", "skl_normal"):
        return spec["est"] in PARTIAL_FIT_OK
    return spec["kind"] == "sliding"


# ---------------- generators


def gen_classes(g: SimRng):
    # also declaration orders that are not sorted (classes_ is sorted, a cost matrix follows the declared order)
    return g.pick([[0, 1], [0, 1, 2], [10, 20, 30], [1, 2], [0, 1, 2, 3], [1, 2, 0], [20, 30, 10], [2, 0, 1], [1, 0]])


def gen_cost_matrix(g: SimRng, k):
    if g.chance(0.7):
        return None
    m = [[0.0 if i == j else round(g.uniform(0.2, 3.0), 2) for j in range(k)] for i in range(k)]
    return m


def gen_clf_spec(g: SimRng, kind, classes, allow_cost=True):
    spec = _gen_clf_spec(g, kind, classes, allow_cost)
    if allow_cost and g.fork("str").chance(0.2):
        # string class names and missing_label=None (the whole object tree uses the same coding)
        def mark(sp):
            sp["str_labels"] = True
            sp.get("params", {}).pop("missing_label", None)
            for sub in [sp.get("inner")] + list(sp.get("members", [])):
                if sub:
                    mark(sub)

        mark(spec)
    return spec


def _gen_clf_spec(g: SimRng, kind, classes, allow_cost=True):
    k = len(classes)
    p = {"classes": list(classes), "random_state": g.randrange(0, 100)}
    if allow_cost:
        cm = gen_cost_matrix(g, k)
        if cm is not None:
            p["cost_matrix"] = cm
    if kind in ("pwc", "skl_clf") and g.chance(0.2):
        p["missing_label"] = -1.0  # a non-NaN sentinel (labels are never negative)
    if kind == "pwc":
        r = g.random()
        if r < 0.35:
            p["metric_dict"] = {"gamma": "mean"}
        elif r < 0.6:
            p["metric_dict"] = {"gamma": g.pick([0.1, 1.0, 5.0])}
        elif r < 0.7:
            p["metric_dict"] = {}
        if g.chance(0.25):
            p["n_neighbors"] = g.pick([1, 2, 5])
        if g.chance(0.3):
            p["class_prior"] = g.pick([0.5, 1.0])
        if g.chance(0.12):
            # another non-negative kernel (its keyword dict is the caller's as well)
            p["metric"] = "laplacian"
            if isinstance((p.get("metric_dict") or {}).get("gamma"), str):
                p["metric_dict"] = {"gamma": 0.5}
        return {"kind": "pwc", "params": p}
    if kind == "mixture":
        if g.chance(0.5):
            p["mixture"] = {"n": g.pick([1, 2, 3]), "seed": g.randrange(0, 50)}
        if g.chance(0.3):
            p["weight_mode"] = "similarities"
        if g.chance(0.3):
            p["class_prior"] = g.pick([0.5, 1.0])
        return {"kind": "mixture", "params": p}
    if kind == "skl_clf":
        return {"kind": "skl_clf", "est": g.pick(["gnb", "lr", "dtc", "sgdc", "gnb", "rf_warm", "dtc_rs"]), "est_seed": g.randrange(0, 50), "faulty": True, "params": p}
    if kind == "sliding":
        p.pop("cost_matrix", None)
        inner = _gen_clf_spec(g, g.pick(["pwc", "skl_clf"]), classes, allow_cost=False)
        inner["params"].pop("missing_label", None)
        inner["params"]["random_state"] = p["random_state"]
        p.update(window_size=g.pick([1, 2, 3, 5, 8, None]), only_labeled=g.chance(0.5))
        return {"kind": "sliding", "inner": inner, "params": p}
    if kind == "annot_ens":
        members = [_gen_clf_spec(g, g.pick(["pwc", "skl_clf"]), classes, allow_cost=False) for _ in range(g.pick([2, 3]))]
        for m in members:
            m["params"].pop("missing_label", None)
        p["voting"] = g.pick(["hard", "soft"])
        return {"kind": "annot_ens", "members": members, "params": p}
    if kind == "annot_lr":
        na = g.pick([2, 3])
        p.update(n_annotators=na, max_iter=g.pick([5, 20]))
        if g.chance(0.3):
            p["solver_dict"] = {"maxiter": 5}
        if g.chance(0.3):
            p.update(g.pick([{"fit_intercept": False}, {"annot_prior_full": 2.0, "annot_prior_diag": 1.0}, {"weights_prior": 0.5}, {"tol": 1e-2}, {"annot_prior_full": [1.0] * na, "annot_prior_diag": [0.5] * na}]))
        return {"kind": "annot_lr", "n_annotators": na, "params": p}
    raise KeyError(kind)


def gen_reg_spec(g: SimRng, kind):
    p = {"random_state": g.randrange(0, 100) if g.chance(0.8) else None}  # (a regressor's own seed is only used for sampling)
    if g.chance(0.25):
        p["missing_label"] = -12345.0  # a non-NaN sentinel that is never a target value
    if kind in ("nic", "nwr"):
        r = g.random()
        if r < 0.4:
            p["metric_dict"] = {"gamma": g.pick([0.1, 1.0, 5.0])}
        elif r < 0.5:
            p["metric_dict"] = {}
        if g.chance(0.12):
            p["metric"] = "laplacian"
        if kind == "nic":
            if g.chance(0.5):
                # (a prior centred on far-away targets: then the data, not the prior/data disagreement, decides the scale)
                p.update(mu_0=g.pick([0, 1.5, 1.0e9]), kappa_0=g.pick([0.1, 1.0]), sigma_sq_0=g.pick([1.0, 0.25]), nu_0=g.pick([2.5, 5.0]))
        return {"kind": kind, "params": p}
    if kind == "skl_reg":
        return {"kind": kind, "est": g.pick(["linreg", "dtr", "sgdr", "linreg", "ard", "pls"]), "est_seed": g.randrange(0, 50), "faulty": True, "params": p}
    if kind == "skl_normal":
        return {"kind": kind, "est": g.pick(["gpr", "bayridge", "ard"]), "est_seed": g.randrange(0, 50), "faulty": True, "params": p}
    raise KeyError(kind)


def gen_dataset(g: SimRng, d, classes, task, na=0, pattern=None, n=None):
    """A small training set; ``pattern`` selects the label degeneracy."""
    nr = g.np("data")
    n = n or g.pick([1, 2, 3, 5, 8, 12])
    scale = g.pick([0.1, 1.0, 10.0])
    K = len(classes)
    lab = nr.randint(0, K, n)
    centres = np.arange(K)[:, None] * np.ones((1, d)) * 3.0
    X = np.round((centres[lab] + nr.normal(0, 0.6, (n, d))) * scale, 4)
    pattern = pattern or g.pick(["mixed", "mixed", "all_missing", "one_class", "one_label", "full", "unseen_class"])
    if task == "clf":
        y = np.array([classes[i] for i in lab], dtype=float)
        if pattern == "one_class":
            c0 = int(nr.randint(0, K))
            y[:] = classes[c0]
            X = np.round((centres[np.full(n, c0, dtype=int)] + nr.normal(0, 0.6, (n, d))) * scale, 4)
        elif pattern == "unseen_class" and K > 2:
            keep = lab != K - 1
            y[~keep] = classes[0]
    else:
        # large offsets: numerically naive moment formulas (E[y^2] - E[y]^2) lose all precision there
        offset = g.pick([0.0, 0.0, 0.0, 1.0e3, 1.0e9])
        y = np.round(offset + 1.5 * X[:, 0] / scale + 0.3 * nr.normal(size=n), 4)
    miss = np.zeros(n, dtype=bool)
    if pattern == "all_missing":
        miss[:] = True
    elif pattern == "one_label":
        miss[:] = True
        miss[nr.randint(0, n)] = False
    elif pattern in ("mixed", "unseen_class", "one_class"):
        miss = nr.random_sample(n) < 0.3
    w = None
    if g.chance(0.3):
        w = np.round(nr.uniform(0.2, 2.0, n), 3)
    if na:
        Y = np.tile(y[:, None], (1, na)).astype(float)
        flip = nr.random_sample((n, na)) < 0.2
        if task == "clf":
            Y[flip] = np.array(classes, dtype=float)[nr.randint(0, K, int(flip.sum()))]
        M = nr.random_sample((n, na)) < (1.0 if pattern == "all_missing" else 0.3)
        Y[M] = np.nan
        if w is not None:
            w = np.tile(w[:, None], (1, na))
        yl = [[None if v != v else float(v) for v in row] for row in Y]
    else:
        yl = [None if m else float(v) for v, m in zip(y, miss)]
    return {"X": X.tolist(), "y": yl, "w": None if w is None else w.tolist(), "pattern": pattern, "scale": scale}


def label_name(c):
    """String form of a numeric class label; lexicographic order == numeric order (values 0..99)."""
    return f"c{int(c):02d}"


def decode_labels(a):
    """Inverse of label_name for arrays returned by an estimator in string-label mode."""
    a = np.asarray(a)
    return np.array([float(str(v)[1:]) for v in a.ravel()], dtype=float).reshape(a.shape)


def encode_missing(y, spec):
    """The oracles work on NaN-coded numeric labels; the estimator receives its own label coding: a missing-label
    sentinel, or -- in string-label mode -- class names in an object array with None for a missing label."""
    if spec.get("str_labels"):
        out = np.full(np.shape(y), None, dtype=object)
        lab = ~np.isnan(y)
        out[lab] = [label_name(v) for v in np.asarray(y)[lab]]
        return out
    ml = spec.get("params", {}).get("missing_label")
    if ml is None:
        return y
    return np.where(np.isnan(y), float(ml), y)


def to_arr_y(y):
    return np.array([[np.nan if v is None else v for v in row] if isinstance(row, list) else (np.nan if row is None else row) for row in y], dtype=float)


def gen_query(g: SimRng, d, classes, scale):
    nr = g.np("query")
    K = len(classes)
    pts = [np.arange(K)[:, None] * np.ones((1, d)) * 3.0 * scale]  # class centres
    pts.append(nr.normal(0, 3.0 * scale, (3, d)))
    pts.append(nr.normal(0, 1.0, (1, d)) + 400.0 * scale)  # far from every training point: all kernel/density mass vanishes
    return np.round(np.vstack(pts), 4).tolist()


# --------------------------------------------------------------------------
# observation of an estimator
# --------------------------------------------------------------------------


def observe(est, Xq, spec, which=("proba", "freq", "predict")):
    """Predictions of an estimator at the query points (exceptions captured)."""
    out = {}
    Xq = np.array(Xq, dtype=float)

    def call(name, f):
        try:
            out[name] = f()
        except Exception as e:
            out[name] = {"exc": type(e).__name__}

    if is_clf(spec):
        if "proba" in which and hasattr(est, "predict_proba"):
            call("proba", lambda: est.predict_proba(Xq))
        if "freq" in which and spec["kind"] in ("pwc", "mixture", "sliding") and hasattr(est, "predict_freq"):
            call("freq", lambda: est.predict_freq(Xq))
        if "predict" in which:
            call("predict", lambda: est.predict(Xq))
    else:
        call("predict", lambda: est.predict(Xq))
        if spec["kind"] in ("nic", "nwr", "skl_normal"):
            call("predict_std", lambda: est.predict(Xq, return_std=True))
    return out


def obs_close(a, b):
    if set(a) != set(b):
        return False
    for k in a:
        x, y = a[k], b[k]
        if isinstance(x, dict) or isinstance(y, dict):
            if not (isinstance(x, dict) and isinstance(y, dict) and x == y):
                return False
        elif not close(x, y, rtol=1e-9, atol=1e-12):
            return False
    return True


def obs_diff(a, b):
    out = []
    for k in sorted(set(a) | set(b)):
        x, y = a.get(k), b.get(k)
        if isinstance(x, dict) or isinstance(y, dict):
            if x != y:
                out.append(f"{k}: {x} vs {y}")
        elif x is None or y is None or not close(x, y, rtol=1e-9, atol=1e-12):
            out.append(f"{k}: {np.asarray(x).ravel()[:4]} vs {np.asarray(y).ravel()[:4]}")
    return out


# --------------------------------------------------------------------------
# base class
# --------------------------------------------------------------------------


class LifeCheckBase(Check):
    engine = "lifesim"
    sim_time_unit = "operations on one estimator object"
    components = {
        "real": [
            "skactiveml.classifier.* and skactiveml.regressor.* (all exported estimators)",
            "scikit-learn estimators wrapped by SklearnClassifier / SklearnRegressor / SklearnNormalRegressor",
        ],
        "stub": ["fault injector around the wrapped scikit-learn estimator: raises from fit/partial_fit before touching state when armed by the scheduler, otherwise delegates to the real estimator"],
    }
    kinds = CLF_KINDS + REG_KINDS

    def gen_spec(self, g: SimRng):
        kind = g.pick(self.kinds)
        if kind in CLF_KINDS:
            classes = gen_classes(g)
            return gen_clf_spec(g, kind, classes), classes
        return gen_reg_spec(g, kind), [0, 1]

    def gen_life(self, rng: SimRng, mode, n_ops=None, fault_rate=None):
        g = rng.fork("workload")
        f = rng.fork("faults")
        spec, classes = self.gen_spec(g)
        task = "clf" if is_clf(spec) else "reg"
        na = n_annot(spec)
        dims = [g.pick([1, 2, 3])]
        if g.chance(0.4):
            dims.append(g.pick([1, 2, 3, 4]))
        datasets = []
        for i in range(g.pick([2, 3, 4])):
            d = g.pick(dims)
            datasets.append(gen_dataset(g.fork(f"d{i}"), d, classes, task, na=na))
        queries = {str(d): gen_query(g.fork(f"q{d}"), d, classes, 1.0) for d in set(len(ds["X"][0]) for ds in datasets)}
        if mode == "C15" and spec["kind"] in ("skl_reg", "skl_normal") and g.chance(0.2):
            # integer-typed features (counts): legal input, kept integer by the wrapper's validation
            for ds in datasets:
                ds["int_X"] = True
        pf = supports_partial_fit(spec)
        ops = []
        n_ops = n_ops or g.pick([3, 5, 8, 12, 20] + ([30, 30, 60] if self.tier == "thorough" else []))
        cur_d = None
        fault_rate = f.pick([0.0, 0.0, 0.15, 0.4]) if fault_rate is None else fault_rate
        can_fail = spec["kind"] in ("skl_clf", "skl_reg", "skl_normal") or (spec["kind"] == "sliding" and spec["inner"]["kind"] == "skl_clf") or spec["kind"] == "annot_ens"
        for t in range(n_ops):
            r = g.random()
            if cur_d is None or r < 0.4:
                di = g.randrange(len(datasets))
                ops.append({"op": "fit", "d": di, "fail": bool(can_fail and f.chance(fault_rate))})
                cur_d = len(datasets[di]["X"][0])
            elif r < 0.6 and pf:
                cands = [i for i, ds in enumerate(datasets) if len(ds["X"][0]) == cur_d]
                di = g.pick(cands)
                ops.append({"op": "partial_fit", "d": di, "fail": bool(can_fail and f.chance(fault_rate))})
            elif mode in ("C13", "C15") and r > 0.93 and reconfig_options(spec):
                # the caller re-configures the living object (set_params is the one legal way to change parameters)
                ops.append({"op": "set_params", "change": g.pick(reconfig_options(spec))})
            else:
                ops.append({"op": g.pick(["predict", "predict_proba", "predict"]) if task == "clf" else g.pick(["predict", "predict_std", "sample_y"])})
        return {"engine": "lifesim", "mode": mode, "spec": spec, "classes": classes, "datasets": datasets, "queries": queries, "ops": ops}

    # ---- generic shrinking of a life
    def shrink(self, sc):
        ops = sc["ops"]
        for keep in (len(ops) // 2, len(ops) - 1):
            if 1 <= keep < len(ops):
                c = copy.deepcopy(sc)
                c["ops"] = ops[:keep]
                yield c
        for j in range(len(ops)):
            if len(ops) > 1:
                c = copy.deepcopy(sc)
                del c["ops"][j]
                if any(o["op"] == "fit" for o in c["ops"]):
                    yield c
        for j, o in enumerate(ops):
            if o.get("fail"):
                c = copy.deepcopy(sc)
                c["ops"][j]["fail"] = False
                yield c
        for i, ds in enumerate(sc["datasets"]):
            n = len(ds["X"])
            for r in range(n - 1, -1, -1):
                if n > 1:
                    c = copy.deepcopy(sc)
                    for k in ("X", "y"):
                        del c["datasets"][i][k][r]
                    if ds.get("w") is not None:
                        del c["datasets"][i]["w"][r]
                    yield c
            if ds.get("w") is not None:
                c = copy.deepcopy(sc)
                c["datasets"][i]["w"] = None
                yield c
        sp = sc["spec"].get("params", {})
        for key in ("cost_matrix", "n_neighbors", "class_prior", "mixture", "weight_mode"):
            if key in sp and sp[key] is not None:
                c = copy.deepcopy(sc)
                del c["spec"]["params"][key]
                yield c

    # ---- helpers shared by the executors
    @staticmethod
    def apply_fit(est, op, ds, spec):
        X = np.array(ds["X"], dtype=float)
        if ds.get("int_X"):
            X = np.rint(X).astype(int)
        y = encode_missing(to_arr_y(ds["y"]), spec)
        w = None if ds.get("w") is None else np.array(ds["w"], dtype=float)
        _FAULT["armed"] = bool(op.get("fail"))
        try:
            fn = est.fit if op["op"] == "fit" else est.partial_fit
            if w is not None:
                fn(X, y, sample_weight=w)  # by keyword: wrappers mirror the wrapped estimator's signature
            else:
                fn(X, y)
        finally:
            _FAULT["armed"] = False

    @staticmethod
    def n_labeled(ds):
        y = to_arr_y(ds["y"])
        return int(np.sum(~np.isnan(y)))


# --------------------------------------------------------------------------
# C13 -- fit is history-free, parameters are never rewritten
# --------------------------------------------------------------------------


class C13Check(LifeCheckBase):
    prop = "C13"
    rule = (
        "run = one estimator object living through a seeded history of fit / partial_fit / predict* calls over data sets that differ in "
        "size, scale, dimensionality, label pattern and weights (symbolic defaults such as gamma='mean' left symbolic, caller-owned dicts "
        "as parameters, wrapped-estimator fit failures injected by the scheduler). After every fit-type call the object must predict like a "
        "fresh object built from the original constructor spec that received only the fit-type calls since the last fit; get_params and "
        "caller-owned dicts are compared by value after every call; SlidingWindowClassifier is checked against a deque reference model. "
        "Stream strategies and budget managers take part through a history of query/update calls with get_params compared after each. "
        "Non-trivial: at least two fits on different data with a prediction in between. Distinct by (subject, wrapped estimator, op-kind "
        "pattern, probes)."
    )
    fault_kinds = ["peer_fit_failed"]
    probes_expected = ["refit_other_n_features", "symbolic_default", "caller_dict_param", "second_fit_other_data", "window_overflow", "fresh_twin_compared", "clone_twin_compared", "params_compared", "stream_subject"]
    assumptions = [
        "the reference is a fresh object built from a deep copy of the original constructor spec (not a clone of the used object, which would inherit a corrupted parameter)",
        "for partial_fit the reference receives the same fit-type calls since the last fit, so only leakage through earlier history and non-fit calls is judged",
        "integer seeds are used; the position of a RandomState instance passed as parameter is not judged",
        "histories do not mix weighted and unweighted calls on a sliding window (unspecified by the documentation)",
    ]
    tiers = {"quick": {"runs": 3500, "wall_cap": 600, "chunk": 15}, "thorough": {"runs": 70000, "wall_cap": 3300, "chunk": 30}}

    def generate(self, rng: SimRng):
        g = rng.fork("kind")
        if g.chance(0.15):
            return self._gen_stream(rng)
        sc = self.gen_life(rng, "C13")
        if sc["spec"]["kind"] == "sliding":
            # no mixing of weighted / unweighted calls on a window
            keep_w = rng.fork("w").chance(0.5)
            nr = rng.fork("w").np("w")
            for ds in sc["datasets"]:
                if keep_w:
                    shape = np.array(to_arr_y(ds["y"])).shape
                    ds["w"] = np.round(nr.uniform(0.2, 2.0, shape), 3).tolist()
                else:
                    ds["w"] = None
        return sc

    def _gen_stream(self, rng: SimRng):
        from . import streamsim as S

        c3 = S.C03Check()
        c3.allow_unseeded = False  # a fixed random_state is the premise here
        sc = c3.generate(rng.fork("stream"))
        sc["injections"] = []
        sc["engine"] = "lifesim"
        sc["mode"] = "C13-stream"
        n = min(60, sum(sc["chunks"]))
        k = 0
        tot = 0
        for c in sc["chunks"]:
            if tot + c > n and k > 0:
                break
            tot += c
            k += 1
        sc["chunks"] = sc["chunks"][:k]
        sc["X"] = sc["X"][:tot]
        if sc.get("y") is not None:
            sc["y"] = sc["y"][:tot]
        return sc

    def execute(self, sc, keep_log=False):
        if sc.get("mode") == "C13-stream":
            return self._execute_stream(sc, keep_log)
        ctx = Ctx(self.prop, keep_log)
        spec = sc["spec"]
        subj = subject_name(spec)
        cond = {"kind": spec["kind"]}
        if "est" in spec:
            cond["est"] = spec["est"]
        _FAULT["fired"] = 0
        owned = {}
        try:
            est = build(spec, owned)
        except Exception as e:
            return ctx.result(sig=subj + "|ctor", extra={"aborted": True, "notes": [repr(e)]})
        owned0 = {k: canon(v) for k, v in owned.items()}
        if owned:
            ctx.probe("caller_dict_param")
        if any(v == "mean" for d in owned.values() for v in d.values()):
            ctx.probe("symbolic_default")
        params0 = canon(est.get_params(deep=True))
        twin = None
        window = None
        if spec["kind"] == "sliding":
            window = deque(maxlen=spec["params"].get("window_size"))
        fits = 0
        last_fit_d = None
        cur_dim = None
        predicted_since_fit = False
        aborted = False
        for t, op in enumerate(sc["ops"]):
            name = op["op"]
            if name == "set_params":
                try:
                    est.set_params(**{op["change"][1]: op["change"][2]})
                except Exception as e:
                    ctx.notes.append(f"set_params raised {e!r}"[:120])
                    break
                spec = apply_reconfig(spec, op["change"])
                params0 = canon(est.get_params(deep=True))  # the one legal way to change what get_params reports
                if spec["kind"] == "sliding":
                    window = deque(window, maxlen=spec["params"].get("window_size"))
                twin = None  # judged again from the next fit on (a re-configured object must be re-fitted)
                cur_dim = None
                ctx.probe("reconfigured")
                ctx.sim_time += 1
                continue
            if name in ("fit", "partial_fit"):
                ds = sc["datasets"][op["d"]]
                d = len(ds["X"][0])
                if name == "fit":
                    if cur_dim is not None and d != cur_dim:
                        ctx.probe("refit_other_n_features")
                    if last_fit_d is not None and last_fit_d != op["d"] and predicted_since_fit:
                        ctx.probe("second_fit_other_data")
                    cur_dim = d
                    last_fit_d = op["d"]
                elif cur_dim is None or d != cur_dim:
                    continue
                try:
                    self.apply_fit(est, op, ds, spec)
                    err = None
                except Exception as e:
                    err = e
                if op.get("fail"):
                    ctx.fault("peer_fit_failed", 1)
                # the fresh twin: constructed from the original spec, receives the fit-type calls since the last fit
                try:
                    if name == "fit" or twin is None:
                        twin = build(spec)
                    self.apply_fit(twin, op, ds, spec)
                    terr = None
                except Exception as e:
                    terr = e
                if (err is None) != (terr is None) or (err is not None and type(err) is not type(terr)):
                    ctx.violate(
                        "refit-differs-from-fresh",
                        subj,
                        f"op {t} {name}(dataset {op['d']}): used object {'raised ' + type(err).__name__ if err else 'succeeded'}, fresh object {'raised ' + type(terr).__name__ if terr else 'succeeded'}: {str(err or terr)[:120]}",
                        cond,
                    )
                    break
                if err is not None:
                    # both refuse alike (e.g. inadmissible data); estimator state undefined -> need a new fit
                    twin = None
                    cur_dim = None if name == "fit" else cur_dim
                    ctx.log.add(name, {"exc": type(err).__name__})
                    ctx.notes.append(f"op {t} {name} raised {type(err).__name__}: {str(err)[:100]}")
                    if name == "fit":
                        # the object may be half-initialised: predictions are not judged until the next successful fit
                        fits += 0
                    continue
                fits += 1
                predicted_since_fit = False
                # sliding window reference model
                if window is not None:
                    self._window_model(window, name, ds, spec)
                Xq = sc["queries"][str(d)]
                o1 = observe(est, Xq, spec)
                o2 = observe(twin, Xq, spec)
                ctx.probe("fresh_twin_compared")
                ctx.log.add(name, o1)
                if not obs_close(o1, o2):
                    ctx.violate(
                        "refit-differs-from-fresh",
                        subj,
                        f"op {t}: after {name}(dataset {op['d']}) the used object predicts differently from a fresh object given the same data: {obs_diff(o1, o2)[:2]}",
                        cond,
                    )
                    break
                if window is not None and not self._check_window(ctx, est, window, spec, Xq, subj, cond, t, op):
                    break
                if name == "fit":
                    # "... gives the same model as fitting a fresh clone on the same data": sklearn.clone of the used object
                    try:
                        from sklearn.base import clone

                        ctwin = clone(est)
                        self.apply_fit(ctwin, op, ds, spec)
                        o3 = observe(ctwin, Xq, spec)
                        cerr = None
                    except Exception as e:
                        cerr = e
                    ctx.probe("clone_twin_compared")
                    if cerr is not None or not obs_close(o1, o3):
                        ctx.violate(
                            "refit-differs-from-clone",
                            subj,
                            f"op {t}: after fit(dataset {op['d']}) the used object predicts differently from sklearn.clone(used object) fitted on the same data: {('clone raised ' + type(cerr).__name__ + ': ' + str(cerr)[:100]) if cerr is not None else obs_diff(o1, o3)[:2]}",
                            cond,
                        )
                        break
            else:
                if cur_dim is None or twin is None:
                    continue
                Xq = np.array(sc["queries"][str(cur_dim)], dtype=float)
                try:
                    if name == "predict":
                        r = est.predict(Xq)
                    elif name == "predict_proba":
                        r = est.predict_proba(Xq)
                    elif name == "predict_std":
                        r = est.predict(Xq, return_std=True) if spec["kind"] in ("nic", "nwr", "skl_normal") else est.predict(Xq)
                    elif name == "sample_y":
                        r = est.sample_y(Xq, 2, random_state=3) if hasattr(est, "sample_y") and spec["kind"] != "skl_reg" else est.predict(Xq)
                    else:
                        r = None
                    ctx.log.add(name, r)
                except Exception as e:
                    ctx.log.add(name, {"exc": type(e).__name__})
                predicted_since_fit = True
            # ---- parameters and caller-owned dicts after every public call
            ctx.probe("params_compared")
            params1 = canon(est.get_params(deep=True))
            if params1 != params0:
                changed = sorted(k for k in set(params0) | set(params1) if params0.get(k) != params1.get(k))
                ctx.violate("constructor-param-changed", subj, f"op {t} ({name}): get_params() differs from construction time in {changed}: {[(str(params0.get(k))[:60], str(params1.get(k))[:60]) for k in changed][:2]}", dict(cond, params=changed))
                break
            for k, v in owned.items():
                if canon(v) != owned0[k]:
                    ctx.violate("caller-dict-modified", subj, f"op {t} ({name}): the dict passed as parameter {k!r} was modified: {owned0[k]} -> {canon(v)}", dict(cond, param=k))
                    break
            if ctx.violations:
                break
            ctx.sim_time += 1
        sig = "|".join([subj, spec.get("est", spec.get("inner", {}).get("kind", "-")), ",".join(sorted(ctx.probes)), ",".join(sorted(ctx.faults)), str(min(fits, 3))])
        return ctx.result(sig=sig, extra={"aborted": fits == 0 and not ctx.violations, "notes": ctx.notes[:3], "fits": fits})

    def _window_model(self, window, name, ds, spec):
        X = np.array(ds["X"], dtype=float)
        y = to_arr_y(ds["y"])
        w = None if ds.get("w") is None else np.array(ds["w"], dtype=float)
        if name == "fit":
            window.clear()
        for i in range(len(X)):
            if spec["params"].get("only_labeled") and np.isnan(y[i]):
                continue
            window.append((X[i], y[i], None if w is None else w[i]))

    def _check_window(self, ctx, est, window, spec, Xq, subj, cond, t, op):
        """Reference model: the base estimator fitted on exactly the window's content."""
        inner = build(spec["inner"])
        if len(window) == 0:
            return True
        Xw = np.array([a for a, _, _ in window])
        yw = encode_missing(np.array([b for _, b, _ in window], dtype=float), spec["inner"])
        ww = None if window[0][2] is None else np.array([c for _, _, c in window], dtype=float)
        _FAULT["armed"] = bool(op.get("fail"))  # the reference meets the same collaborator failure
        try:
            if ww is not None:
                inner.fit(Xw, yw, sample_weight=ww)
            else:
                inner.fit(Xw, yw)
        except Exception:
            return True
        finally:
            _FAULT["armed"] = False
        cap = window.maxlen
        if cap is not None and len(window) == cap:
            ctx.probe("window_overflow")
        # probabilities only: hard predictions additionally depend on how often the tie-break generator was used
        o1 = observe(est, Xq, spec, which=("proba",))
        o2 = observe(inner, Xq, spec["inner"], which=("proba",))
        if not obs_close(o1, o2):
            ctx.violate(
                "sliding-window-model",
                subj,
                f"op {t}: the sliding-window classifier does not predict like its base estimator fitted on the last {len(window)} samples it was given: {obs_diff(o1, o2)[:2]}",
                cond,
            )
            return False
        return True

    def _execute_stream(self, sc, keep_log):
        from . import streamsim as S

        ctx = Ctx(self.prop, keep_log)
        subj = S.subject_name(sc["subject"])
        ctx.probe("stream_subject")
        try:
            drv = S.Driver(sc["subject"], sc["clf"], sc["X"], sc["y"])
        except Exception as e:
            return ctx.result(sig=subj + "|ctor", extra={"aborted": True, "notes": [repr(e)]})
        params0 = canon(drv.obj.get_params(deep=True))
        clf_params0 = None if drv.is_manager else canon(drv.clf_peer.clf.get_params(deep=True))
        pos = 0
        for k, c in enumerate(sc["chunks"]):
            rows = drv.rows(pos, pos + c)
            try:
                q, u = drv.query_rows(rows, True)
                stage = "query"
                bad = self._params_changed(ctx, drv, params0, clf_params0, subj, k, stage)
                if bad:
                    break
                drv.update_rows(rows, q, u)
                stage = "update"
                if self._params_changed(ctx, drv, params0, clf_params0, subj, k, stage):
                    break
            except Exception as e:
                ctx.notes.append(repr(e)[:100])
                break
            ctx.log.add("q", list(np.asarray(q).tolist()))
            pos += c
            ctx.sim_time += 1
        return ctx.result(sig="stream|" + subj + "|" + ",".join(sorted(ctx.probes)), extra={"aborted": pos == 0 and not ctx.violations, "notes": ctx.notes[:2]})

    def _params_changed(self, ctx, drv, params0, clf_params0, subj, k, stage):
        ctx.probe("params_compared")
        p1 = canon(drv.obj.get_params(deep=True))
        if p1 != params0:
            changed = sorted(x for x in set(params0) | set(p1) if params0.get(x) != p1.get(x))
            ctx.violate("constructor-param-changed", subj, f"chunk {k}: {stage} changed get_params() in {changed}: {[(str(params0.get(x))[:50], str(p1.get(x))[:50]) for x in changed][:2]}", {"params": changed})
            return True
        if clf_params0 is not None:
            c1 = canon(drv.clf_peer.clf.get_params(deep=True))
            if c1 != clf_params0:
                ctx.violate("constructor-param-changed", subj, f"chunk {k}: {stage} changed the parameters of the classifier handed to the strategy", {"params": ["clf"]})
                return True
        return False

    def nontrivial(self, res):
        p = res["probes"]
        return p.get("second_fit_other_data", 0) > 0 or p.get("refit_other_n_features", 0) > 0 or (p.get("stream_subject", 0) > 0 and res["sim_time"] >= 2)

    def shrink(self, sc):
        if sc.get("mode") == "C13-stream":
            from . import streamsim as S

            yield from S.C03Check().shrink_common(sc)
        else:
            yield from super().shrink(sc)


# --------------------------------------------------------------------------
# C11 -- valid probabilities and consistent decisions along life cycles
# --------------------------------------------------------------------------

SELF_ESTIMATING = {"pwc", "mixture", "skl_clf", "annot_lr"}


def in_fallback(est):
    """Is a SklearnClassifier (possibly nested) in its could-not-be-fitted state?"""
    if getattr(est, "is_fitted_", True) is False and type(est).__name__ == "SklearnClassifier":
        return True
    inner = est.__dict__.get("estimator_")
    if inner is not None and hasattr(inner, "get_params") and in_fallback(inner):
        return True
    for pair in est.__dict__.get("estimators_", []) or []:
        if in_fallback(pair[1]):
            return True
    return False


def collaborator_consistent(est, Xq):
    """Precondition on the wrapped scikit-learn estimators: predict == arg-max of predict_proba."""
    todo = [est]
    inner = est.__dict__.get("estimator_")
    if inner is not None and hasattr(inner, "get_params"):
        todo.append(inner)
    for obj in todo:
        if type(obj).__name__ != "SklearnClassifier" or obj.cost_matrix is not None or not getattr(obj, "is_fitted_", False):
            continue
        e = obj.__dict__.get("estimator_")
        try:
            p = np.asarray(e.predict_proba(Xq), dtype=float)
            yp = np.asarray(e.predict(Xq))
            idx = np.searchsorted(np.asarray(e.classes_), yp)
            if not np.isfinite(p).all():
                return False  # the collaborator itself emits NaN probabilities (degenerate GaussianNB state)
            if (p[np.arange(len(Xq)), idx] < p.max(axis=1) - 1e-9).any():
                return False
        except Exception:
            return False
    return True


class C11Check(LifeCheckBase):
    prop = "C11"
    kinds = CLF_KINDS
    rule = (
        "run = one classifier living through a seeded fit / partial_fit history with scheduler-injected failures of the wrapped "
        "estimator, class-poor stretches (fewer classes seen than declared, a single class, no label at all) and sliding windows; after "
        "every fit-type event the simplex / column-order / decision invariants are evaluated on query points that include one planted "
        "point per class. Claimed scope: the history- and fault-dependent states of SklearnClassifier, SlidingWindowClassifier and "
        "AnnotatorEnsembleClassifier; evaluations on the remaining classifiers are reported as sampled, not schedule-dependent. "
        "Non-trivial: a degenerate state was reached (failure fall-back, fewer classes seen than declared, zero labels, full window). "
        "Distinct by (subject, wrapped estimator, probes, faults)."
    )
    fault_kinds = ["peer_fit_failed"]
    probes_expected = ["string_class_labels", "fallback_prediction_used", "fewer_classes_seen", "zero_labels", "one_class_only", "cost_matrix_decision", "planted_class_checked", "schedule_dependent_state", "sampled_not_schedule_dependent"]
    assumptions = [
        "only wrapped estimators whose own predict is the arg-max of their predict_proba are used, so 'most probable class' is not over-strict",
        "cost optimality is judged up to ties (1e-9)",
        "the uniform-for-zero-labels clause is judged for ParzenWindowClassifier, MixtureModelClassifier, SklearnClassifier and AnnotatorLogisticRegression (with class_prior = 0)",
    ]
    tiers = {"quick": {"runs": 4500, "wall_cap": 600, "chunk": 15}, "thorough": {"runs": 90000, "wall_cap": 3300, "chunk": 30}}

    def generate(self, rng: SimRng):
        return self.gen_life(rng, "C11")

    def execute(self, sc, keep_log=False):
        ctx = Ctx(self.prop, keep_log)
        spec = sc["spec"]
        subj = subject_name(spec)
        cond = {"kind": spec["kind"]}
        if "est" in spec:
            cond["est"] = spec["est"]
        cond["cost_matrix"] = spec.get("params", {}).get("cost_matrix") is not None
        claimed = spec["kind"] in ("skl_clf", "sliding", "annot_ens")
        ctx.probe("schedule_dependent_state" if claimed else "sampled_not_schedule_dependent")
        _FAULT["fired"] = 0
        try:
            est = build(spec)
        except Exception as e:
            return ctx.result(sig=subj + "|ctor", extra={"aborted": True, "notes": [repr(e)]})
        classes = sc["classes"]
        cur_dim = None
        events = 0
        window = deque(maxlen=spec["params"].get("window_size")) if spec["kind"] == "sliding" else None
        window_known = True
        for t, op in enumerate(sc["ops"]):
            if op["op"] not in ("fit", "partial_fit"):
                continue
            ds = sc["datasets"][op["d"]]
            d = len(ds["X"][0])
            if op["op"] == "partial_fit" and (cur_dim is None or d != cur_dim):
                continue
            try:
                self.apply_fit(est, op, ds, spec)
            except Exception as e:
                ctx.log.add(op["op"], {"exc": type(e).__name__})
                if op["op"] == "fit":
                    cur_dim = None
                # a refused call (e.g. weighted after unweighted samples on a window) may have been refused half-way:
                # what the window holds is unknown until the next successful fit
                window_known = False
                continue
            cur_dim = d
            events += 1
            if window is not None and op["op"] == "fit":
                window_known = True
            if window is not None and not window_known:
                ctx.probe("window_state_unknown_after_refusal")
            elif window is not None:
                # what the sliding window holds now (reference: a deque of the samples it was given)
                if op["op"] == "fit":
                    window.clear()
                for lab_i in to_arr_y(ds["y"]):
                    if not (spec["params"].get("only_labeled") and np.isnan(lab_i)):
                        window.append(lab_i)
                inner_p = spec["inner"].get("params", {})
                if len(window) and all(np.isnan(v) for v in window) and not op.get("fail") and not (inner_p.get("class_prior") or 0):
                    ctx.probe("window_without_labels")
                    try:
                        Pw = np.asarray(est.predict_proba(np.array(sc["queries"][str(d)], dtype=float)), dtype=float)
                        if Pw.shape[1] == len(classes) and not np.allclose(Pw, 1.0 / len(classes), atol=1e-9):
                            ctx.violate("zero-labels-not-uniform", subj, f"op {t}: the window holds {len(window)} samples, none of them labeled, but predict_proba is {Pw[0]} instead of uniform", cond)
                            break
                    except Exception:
                        pass
            fired_now = bool(op.get("fail")) and _FAULT["fired"] > 0
            if op.get("fail"):
                ctx.fault("peer_fit_failed")
            y = to_arr_y(ds["y"])
            nl = int(np.sum(~np.isnan(y)))
            seen = sorted(set(y[~np.isnan(y)].tolist()))
            if nl == 0:
                ctx.probe("zero_labels")
            elif len(seen) == 1:
                ctx.probe("one_class_only")
            if 0 < len(seen) < len(classes):
                ctx.probe("fewer_classes_seen")
            if in_fallback(est):
                ctx.probe("fallback_prediction_used")
            Xq = np.array(sc["queries"][str(d)], dtype=float) * ds.get("scale", 1.0)
            if not self._invariants(ctx, est, spec, Xq, classes, subj, cond, t, nl, ds, op):
                break
            ctx.sim_time += 1
        sig = "|".join([subj, spec.get("est", spec.get("inner", {}).get("kind", "-")), ",".join(sorted(ctx.probes)), ",".join(sorted(ctx.faults))])
        return ctx.result(sig=sig, extra={"aborted": events == 0 and not ctx.violations})

    def _invariants(self, ctx, est, spec, Xq, classes, subj, cond, t, n_labeled, ds, op):
        K = len(classes)
        try:
            cls_ = np.asarray(est.classes_)
            if spec.get("str_labels"):
                ctx.probe("string_class_labels")
                cls_ = decode_labels(cls_)
        except Exception:
            return True
        if len(cls_) != K or not np.array_equal(cls_, np.array(sorted(classes))):
            ctx.violate("classes-attribute", subj, f"op {t}: classes_={cls_.tolist()} although classes={classes} were declared", cond)
            return False
        try:
            P = np.asarray(est.predict_proba(Xq), dtype=float)
        except Exception as e:
            ctx.violate("predict-proba-raises", subj, f"op {t}: predict_proba raised {type(e).__name__}: {str(e)[:120]} after {op['op']} on {n_labeled} labels ({ds['pattern']})", dict(cond, exc=type(e).__name__))
            return False
        ctx.log.add("proba", P)
        if P.shape != (len(Xq), K):
            ctx.violate("proba-shape", subj, f"op {t}: predict_proba has shape {P.shape}, expected {(len(Xq), K)}", cond)
            return False
        if not np.isfinite(P).all():
            ctx.violate("proba-not-finite", subj, f"op {t}: predict_proba contains non-finite values after {op['op']} on {n_labeled} labels ({ds['pattern']}): {P[~np.isfinite(P).all(axis=1)][:1]}", cond)
            return False
        if (P < -1e-12).any() or not np.allclose(P.sum(axis=1), 1.0, atol=1e-8):
            ctx.violate("proba-not-simplex", subj, f"op {t}: rows of predict_proba are not on the simplex: sums {P.sum(axis=1)[:4]}, min {P.min()}", cond)
            return False
        if spec["kind"] in ("pwc", "mixture", "sliding") and hasattr(est, "predict_freq"):
            try:
                Fq = np.asarray(est.predict_freq(Xq), dtype=float)
                if (Fq < -1e-12).any() or Fq.shape != (len(Xq), K):
                    ctx.violate("freq-negative", subj, f"op {t}: predict_freq negative or mis-shaped {Fq.shape}", cond)
                    return False
            except Exception:
                pass
        # zero labels -> uniform (for classifiers that estimate probabilities themselves)
        prior = spec.get("params", {}).get("class_prior", 0) or 0
        if n_labeled == 0 and op["op"] == "fit" and spec["kind"] in SELF_ESTIMATING and prior == 0:
            if not np.allclose(P, 1.0 / K, atol=1e-9):
                ctx.violate("zero-labels-not-uniform", subj, f"op {t}: no label was given but predict_proba is {P[0]} instead of uniform", cond)
                return False
        # planted class: when exactly one class has been observed, its column must carry the largest probability
        y = to_arr_y(ds["y"])
        lab_all = y[~np.isnan(y)]
        seen_all = sorted(set(lab_all.tolist()))
        every_annotator_labeled = y.ndim == 1 or bool((~np.isnan(y)).any(axis=0).all())
        if op["op"] == "fit" and len(seen_all) == 1 and K >= 2 and spec["kind"] != "annot_lr" and every_annotator_labeled and not op.get("fail"):
            # judged at the labeled training points themselves (positive kernel mass there); a latent-variable
            # model of annotators (AnnotatorLogisticRegression) may legitimately explain the data otherwise
            rows = ~np.isnan(y) if y.ndim == 1 else (~np.isnan(y)).any(axis=1)
            Xl = np.array(ds["X"], dtype=float)[rows]
            try:
                Pl = np.asarray(est.predict_proba(Xl), dtype=float)
            except Exception:
                Pl = None
            if Pl is not None and Pl.shape == (len(Xl), K) and np.isfinite(Pl).all():
                ctx.probe("planted_class_checked")
                col = sorted(classes).index(seen_all[0])
                if (Pl[:, col] < Pl.max(axis=1) - 1e-9).any():
                    i_bad = int(np.argmax(Pl.max(axis=1) - Pl[:, col]))
                    ctx.violate("proba-column-order", subj, f"op {t}: only class {seen_all[0]} was observed (column {col} of classes_={sorted(classes)}) but predict_proba at a training point labeled with it is {Pl[i_bad]}", cond)
                    return False
        # decisions
        try:
            yp = np.asarray(est.predict(Xq))
            if spec.get("str_labels"):
                yp = decode_labels(yp)
        except Exception as e:
            ctx.violate("predict-raises", subj, f"op {t}: predict raised {type(e).__name__}: {str(e)[:120]}", dict(cond, exc=type(e).__name__))
            return False
        ctx.log.add("predict", yp)
        srt = np.array(sorted(classes))
        if yp.shape != (len(Xq),) or not np.isin(yp, srt).all():
            ctx.violate("predict-not-in-classes", subj, f"op {t}: predict returned {yp.tolist()[:6]} which is not a subset of classes_={srt.tolist()} (cost_matrix set: {cond['cost_matrix']})", cond)
            return False
        if spec["kind"] == "annot_ens" and spec["params"].get("voting") == "hard":
            # hard votes of members that break ties randomly: predict_proba is itself random per call, so the
            # probabilities behind a decision cannot be observed -- membership in classes_ was judged above
            return True
        cond = dict(cond, fallback=in_fallback(est))
        if not cond["fallback"] and not collaborator_consistent(est, Xq):
            # the wrapped scikit-learn estimator's own predict is not the arg-max of its own predict_proba on
            # these points (e.g. GaussianNB after partial_fit with never observed classes): not the wrapper's doing
            ctx.probe("collaborator_inconsistent")
            return True
        # the cost matrix as the caller configured it (declared class order), re-indexed to the sorted classes_
        # independently of the library's own cost_matrix_
        cm_decl = spec.get("params", {}).get("cost_matrix")
        if cm_decl is None:
            cm = 1 - np.eye(K)
        else:
            perm = np.argsort(np.array(classes))
            cm = np.array(cm_decl, dtype=float)[perm][:, perm]
        if cond["cost_matrix"]:
            ctx.probe("cost_matrix_decision")
        # re-evaluate proba (predict may have consumed tie-break randomness only)
        costs = P @ np.asarray(cm, dtype=float)
        idx = np.searchsorted(srt, yp)
        chosen = costs[np.arange(len(Xq)), idx]
        if (chosen > costs.min(axis=1) + 1e-9).any():
            i = int(np.argmax(chosen - costs.min(axis=1)))
            ctx.violate(
                "decision-not-cost-optimal",
                subj,
                f"op {t}: predict chose class {yp[i]} with expected cost {chosen[i]:.6g} although {srt[int(np.argmin(costs[i]))]} costs {costs[i].min():.6g} (P={P[i]}, cost_matrix set: {cond['cost_matrix']})",
                cond,
            )
            return False
        return True

    def nontrivial(self, res):
        p = res["probes"]
        return any(p.get(k, 0) > 0 for k in ("fallback_prediction_used", "fewer_classes_seen", "zero_labels", "one_class_only")) and res["sim_time"] >= 1


# --------------------------------------------------------------------------
# C15 -- regressor predictions cohere with their distribution (fallback clause claimed)
# --------------------------------------------------------------------------


class C15Check(LifeCheckBase):
    prop = "C15"
    kinds = REG_KINDS
    rule = (
        "run = one regressor living through a seeded fit / partial_fit history that reaches the degenerate states (zero labels, one "
        "label, wrapped estimator failing to fit: injected by the scheduler or arising naturally); after every fit-type event the "
        "fall-back clause (documented default instead of an exception) and the coherence invariants (predict == mean/std/entropy of the "
        "target distribution, std finite and >= 0 under the stated precondition, sample_y shape and seed reproducibility) are evaluated. "
        "Claimed scope: the fall-back clause and the history-reached states. Non-trivial: a fall-back or a zero/one-label state was reached. "
        "Distinct by (subject, wrapped estimator, probes, faults)."
    )
    fault_kinds = ["peer_fit_failed"]
    probes_expected = ["fallback_prediction_used", "zero_labels", "one_label", "coherence_checked", "sample_y_checked", "std_checked", "natural_fit_failure", "integer_features"]
    assumptions = [
        "NadarayaWatsonRegressor is only judged with at least one label (documented)",
        "std must be finite and non-negative when a proper prior (NIC: kappa_0, nu_0 > 0) or at least two labels are available",
        "after an injected failure the prediction must equal the documented fall-back (mean 0 without labels, else the empirical label mean; std 1 with fewer than two labels, else the empirical std)",
    ]
    tiers = {"quick": {"runs": 6000, "wall_cap": 600, "chunk": 15}, "thorough": {"runs": 120000, "wall_cap": 3300, "chunk": 30}}

    def generate(self, rng: SimRng):
        return self.gen_life(rng, "C15")

    def execute(self, sc, keep_log=False):
        ctx = Ctx(self.prop, keep_log)
        spec = sc["spec"]
        subj = subject_name(spec)
        cond = {"kind": spec["kind"]}
        if "est" in spec:
            cond["est"] = spec["est"]
        try:
            est = build(spec)
        except Exception as e:
            return ctx.result(sig=subj + "|ctor", extra={"aborted": True, "notes": [repr(e)]})
        cur_dim = None
        events = 0
        for t, op in enumerate(sc["ops"]):
            if op["op"] == "set_params":
                # the one legal way to re-configure a living object; the calls that follow see the new setting
                try:
                    est.set_params(**{op["change"][1]: op["change"][2]})
                except Exception as e:
                    ctx.notes.append(f"set_params raised {e!r}"[:120])
                    break
                spec = apply_reconfig(spec, op["change"])
                ctx.probe("reconfigured")
                continue
            if op["op"] not in ("fit", "partial_fit"):
                continue
            ds = sc["datasets"][op["d"]]
            d = len(ds["X"][0])
            if op["op"] == "partial_fit" and (cur_dim is None or d != cur_dim):
                continue
            y = to_arr_y(ds["y"])
            lab = y[~np.isnan(y)]
            nl = len(lab)
            if nl == 0:
                ctx.probe("zero_labels")
            elif nl == 1:
                ctx.probe("one_label")
            _FAULT["fired"] = 0
            try:
                self.apply_fit(est, op, ds, spec)
            except Exception as e:
                if spec["kind"] in ("skl_reg", "skl_normal") and ds.get("w") is None:
                    ctx.violate("fit-raises-instead-of-fallback", subj, f"op {t}: {op['op']} on {nl} labels raised {type(e).__name__}: {str(e)[:120]} although wrapped regressors are documented to fall back", dict(cond, exc=type(e).__name__))
                    break
                ctx.log.add(op["op"], {"exc": type(e).__name__})
                if op["op"] == "fit":
                    cur_dim = None
                continue
            cur_dim = d
            events += 1
            failed = bool(op.get("fail")) and _FAULT["fired"] > 0
            if op.get("fail"):
                ctx.fault("peer_fit_failed")
            Xq = np.array(sc["queries"][str(d)], dtype=float) * ds.get("scale", 1.0)
            if ds.get("int_X"):
                Xq = np.rint(Xq).astype(int)
                ctx.probe("integer_features")
            if spec["kind"] == "nwr" and nl == 0:
                continue
            natural = False
            if spec["kind"] in ("skl_reg", "skl_normal") and not failed and nl > 0:
                # the wrapped estimator refused the data on its own (e.g. needs two samples)
                try:
                    from sklearn.utils.validation import check_is_fitted as _cif

                    _cif(est.estimator_)
                except Exception:
                    natural = True
                    ctx.probe("natural_fit_failure")
            # ---- fall-back clause
            if spec["kind"] in ("skl_reg", "skl_normal"):
                try:
                    mu = np.asarray(est.predict(Xq), dtype=float)
                except Exception as e:
                    ctx.violate("predict-raises-instead-of-fallback", subj, f"op {t}: predict raised {type(e).__name__}: {str(e)[:120]} after {op['op']} on {nl} labels (injected failure: {failed})", dict(cond, exc=type(e).__name__))
                    break
                ctx.log.add("predict", mu)
                if failed or nl == 0 or natural:
                    ctx.probe("fallback_prediction_used")
                    want = float(np.mean(lab)) if nl > 0 else 0.0
                    if mu.shape != (len(Xq),) or not np.allclose(mu, want, rtol=1e-9, atol=1e-12):
                        ctx.violate("fallback-value", subj, f"op {t}: after a failed fit on {nl} labels predict returned {mu[:3]} instead of the documented fall-back {want}", cond)
                        break
                    if spec["kind"] == "skl_normal":
                        try:
                            m2, sd = est.predict(Xq, return_std=True)
                        except Exception as e:
                            ctx.violate("predict-raises-instead-of-fallback", subj, f"op {t}: predict(return_std=True) raised {type(e).__name__}: {str(e)[:100]} in the fall-back state", dict(cond, exc=type(e).__name__))
                            break
                        want_sd = float(np.std(lab)) if nl > 1 else 1.0
                        if not np.allclose(sd, want_sd, rtol=1e-9, atol=1e-12):
                            ctx.violate("fallback-value", subj, f"op {t}: fall-back std is {np.asarray(sd)[:3]} instead of {want_sd}", cond)
                            break
                # (finiteness of a successfully fitted scikit-learn estimator's own predictions is the collaborator's
                # business -- BayesianRidge / GaussianProcessRegressor return NaN for targets around 1e9 -- not judged)
            # ---- coherence with the target distribution
            if spec["kind"] in ("nic", "nwr", "skl_normal"):
                Xl = np.array(ds["X"], dtype=float)[~np.isnan(y)]
                if not self._coherence(ctx, est, spec, Xq, subj, cond, t, nl, Xl):
                    break
            ctx.sim_time += 1
        sig = "|".join([subj, spec.get("est", "-"), ",".join(sorted(ctx.probes)), ",".join(sorted(ctx.faults))])
        return ctx.result(sig=sig, extra={"aborted": events == 0 and not ctx.violations})

    def _coherence(self, ctx, est, spec, Xq, subj, cond, t, nl, Xl=None):
        try:
            rv = est.predict_target_distribution(Xq)
            mu, sd, ent = est.predict(Xq, return_std=True, return_entropy=True)
        except Exception as e:
            if spec["kind"] == "skl_normal":
                ctx.violate("predict-raises-instead-of-fallback", subj, f"op {t}: predict_target_distribution / predict raised {type(e).__name__}: {str(e)[:100]} ({nl} labels)", dict(cond, exc=type(e).__name__))
                return False
            return True
        ctx.probe("coherence_checked")
        ok = np.allclose(mu, rv.mean(), rtol=1e-9, atol=1e-12, equal_nan=True) and np.allclose(sd, rv.std(), rtol=1e-9, atol=1e-12, equal_nan=True) and np.allclose(ent, rv.entropy(), rtol=1e-9, atol=1e-12, equal_nan=True)
        if not ok:
            ctx.violate("predict-incoherent-with-distribution", subj, f"op {t}: predict(return_std, return_entropy) differs from mean/std/entropy of predict_target_distribution", cond)
            return False
        p = spec.get("params", {})
        proper_prior = spec["kind"] == "nic" and p.get("kappa_0", 0.1) > 0 and p.get("nu_0", 2.5) > 2
        if proper_prior or nl >= 2:
            ctx.probe("std_checked")
            sdv = np.asarray(sd, dtype=float)
            if spec["kind"] == "nic" and (not np.isfinite(sdv).all() or (sdv < 0).any()):
                ctx.violate("std-invalid", subj, f"op {t}: standard deviation {sdv[:4]} is not finite and non-negative ({nl} labels, proper prior: {proper_prior})", cond)
                return False
        if spec["kind"] == "nwr" and nl >= 2 and Xl is not None and len(Xl):
            # no prior: judged where kernel mass is guaranteed, i.e. at the labeled training points themselves
            try:
                _, sd_l = est.predict(Xl, return_std=True)
                sd_l = np.asarray(sd_l, dtype=float)
                ctx.probe("std_checked")
                if not np.isfinite(sd_l).all() or (sd_l < 0).any():
                    ctx.violate("std-invalid", subj, f"op {t}: standard deviation at labeled training points is {sd_l[:4]} with {nl} labels", cond)
                    return False
            except Exception:
                pass
        try:
            sd_seed = 0 if (t % 2 == 0) else 7  # 0 is a seed like any other
            s1 = np.asarray(est.sample_y(Xq, 3, random_state=sd_seed))
            s2 = np.asarray(est.sample_y(Xq, 3, random_state=sd_seed))
            ctx.probe("sample_y_checked")
            if s1.shape != (len(Xq), 3):
                ctx.violate("sample-y-shape", subj, f"op {t}: sample_y returned shape {s1.shape}, expected {(len(Xq), 3)}", cond)
                return False
            if not close(s1, s2, rtol=0, atol=0):
                ctx.violate("sample-y-not-reproducible", subj, f"op {t}: sample_y with a fixed random_state returned different samples", cond)
                return False
        except Exception:
            pass
        return True

    def nontrivial(self, res):
        p = res["probes"]
        return any(p.get(k, 0) > 0 for k in ("fallback_prediction_used", "zero_labels", "one_label"))
