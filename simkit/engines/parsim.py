"""E4 parsim -- simulated joblib for ParallelUtilityEstimationWrapper (C20).

A joblib backend ``verif_sim`` is registered and selected through the wrapper's
own ``parallel_dict={"backend": "verif_sim"}``.  ``submit`` only records a
task; the first ``retrieve_result`` hands all pending tasks of the dispatch
wave to the simulator, which executes them in one of three modes:

* ``order``    sequentially in a seeded permutation (shared objects);
* ``isolated`` as ``order`` but every task and its result are round-tripped
               through cloudpickle/pickle: process semantics (what loky does);
* ``threads``  every task is a real thread, a baton lets exactly one run, and a
               ``sys.settrace`` hook on line events inside ``skactiveml/``
               pre-empts at seeded step numbers -- the interleaving is decided by
               the scenario and replays exactly.

``skactiveml.pool._wrapper.cpu_count`` is patched to the simulated core count.

Simulated time = line events executed inside skactiveml by the tasks.
"""
from __future__ import annotations

import copy
import pickle
import sys
import threading

import numpy as np

from ..core import Ctx, SimRng, close, same
from ..runner import Check
from . import poolreg as R
from .poolsim import POOL_KINDS, to_y

MARKER = "/skactiveml/"

WHITELIST = [
    "UncertaintySampling:least_confident",
    "UncertaintySampling:margin_sampling",
    "UncertaintySampling:entropy",
    "ProbabilisticAL",
    "EpistemicUncertaintySampling",
    "QueryByCommittee:KL_divergence",
    "QueryByCommittee:vote_entropy",
    "QueryByCommittee:variation_ratios",
    "QueryByCommittee:reg",
    "ExpectedModelChangeMaximization",
    "ExpectedModelVarianceReduction",
    "ExpectedModelOutputChange",
    "KLDivergenceMaximization",
    "MonteCarloEER:misclassification_loss",
    "ContrastiveAL",
    "CoreSet",
    # variants with non-default constructor parameters (utilities still independent of the other candidates)
    "UncertaintySampling:lc_cost",
    "UncertaintySampling:ms_cost",
    "ProbabilisticAL:prior",
    "QueryByCommittee:KL_eps",
    "ExpectedModelOutputChange:loss",
    "MonteCarloEER:cost",
    "ContrastiveAL:nn",
]


class SimState:
    """Scenario-controlled state of the simulated execution environment."""

    def __init__(self):
        self.mode = "order"
        self.cpu = 4
        self.perm = []
        self.ctx = None
        self.trace = []
        self.steps = 0
        self.switches = {}
        self.waves = 0
        self.tasks = 0
        self.completion_order = []


SIM = SimState()


class _Job:
    def __init__(self, func, callback):
        self.func = func
        self.callback = callback
        self.done = False
        self.result = None
        self.error = None


_BACKEND = None


def backend_class():
    global _BACKEND
    if _BACKEND is not None:
        return _BACKEND
    from joblib import register_parallel_backend
    from joblib._parallel_backends import ParallelBackendBase

    class VerifSimBackend(ParallelBackendBase):
        supports_retrieve_callback = False
        uses_threads = True
        supports_sharedmem = True
        supports_timeout = False
        default_n_jobs = 1

        def configure(self, n_jobs=1, parallel=None, **kw):
            self.parallel = parallel
            self._pending = []
            self._n = self.effective_n_jobs(n_jobs)
            return self._n

        def effective_n_jobs(self, n_jobs):
            if n_jobs == 0:
                raise ValueError("n_jobs == 0 in Parallel has no meaning")
            if n_jobs is None:
                return 1
            if n_jobs < 0:
                return max(SIM.cpu + 1 + n_jobs, 1)
            return n_jobs

        def submit(self, func, callback=None):
            job = _Job(func, callback)
            self._pending.append(job)
            return job

        def retrieve_result(self, out, timeout=None):
            guard = 0
            while not out.done:
                wave, self._pending = self._pending, []
                if not wave:
                    raise RuntimeError("simulated backend: job neither pending nor done")
                run_wave(wave)
                guard += 1
                if guard > 1000:
                    raise RuntimeError("simulated backend: no progress")
            if out.error is not None:
                raise out.error
            return out.result

        def abort_everything(self, ensure_ready=True):
            self._pending = []

        def terminate(self):
            self._pending = []

    register_parallel_backend("verif_sim", VerifSimBackend)
    _BACKEND = VerifSimBackend
    return _BACKEND


# --------------------------------------------------------------------------
# executing one dispatch wave
# --------------------------------------------------------------------------


def _finish(job):
    job.done = True
    SIM.completion_order.append(id(job))
    if job.callback is not None:
        job.callback(job)  # lets joblib dispatch the next tasks (they join a later wave)


def run_wave(wave):
    SIM.waves += 1
    SIM.tasks += len(wave)
    n = len(wave)
    perm = [p for p in SIM.perm if p < n]
    perm += [i for i in range(n) if i not in perm]
    if SIM.mode in ("order", "isolated"):
        for i in perm:
            job = wave[i]
            try:
                if SIM.mode == "isolated":
                    try:
                        import cloudpickle
                    except ImportError:  # older joblib vendors it
                        from joblib.externals import cloudpickle

                    f = pickle.loads(cloudpickle.dumps(job.func))
                    job.result = pickle.loads(pickle.dumps(_traced_call(f)))
                else:
                    job.result = _traced_call(job.func)
            except BaseException as e:  # noqa: BLE001 - handed back to joblib
                job.error = e
            _finish(job)
        return
    # ---- threads: baton passing, seeded pre-emption
    sched = ThreadSched([j.func for j in wave], perm, SIM.switches)
    results = sched.run()
    for i in sched.finish_order:
        job = wave[i]
        kind, val = results[i]
        if kind == "ok":
            job.result = val
        else:
            job.error = val
        _finish(job)


def _traced_call(f):
    """Sequential call that counts line events (simulated time)."""
    prev = sys.gettrace()

    def local(frame, event, arg):
        if event == "line":
            SIM.steps += 1
        return local

    def glob(frame, event, arg):
        return local if MARKER in frame.f_code.co_filename else None

    sys.settrace(glob)
    try:
        return f()
    finally:
        sys.settrace(prev)


class ThreadSched:
    """Real threads, one baton, pre-emption at given task-local step numbers.

    ``switches`` maps a task rank (position in the start order) to the sorted
    list of that task's own line-event counts at which it is pre-empted.
    """

    def __init__(self, funcs, order, switches, fuel=None):
        self.funcs = funcs
        self.fuel = fuel  # per-task bound on line events (liveness oracle of the callers that need one)
        self.n = len(funcs)
        self.order = list(order)
        rank_of = {t: r for r, t in enumerate(self.order)}
        self.switches = {}
        for t in range(self.n):
            pts = []
            for rank, steps in (switches or {}).items():
                if int(rank) % self.n == rank_of[t]:
                    pts.extend(steps)
            self.switches[t] = sorted(set(int(x) for x in pts))
        self.local = {t: 0 for t in range(self.n)}
        self.cv = threading.Condition()
        self.current = None
        self.alive = set(range(self.n))
        self.results = {}
        self.finish_order = []
        self.k = 0  # rotating choice among parked threads

    def _next_alive(self, after):
        cand = [i for i in self.order if i in self.alive and i != after]
        if not cand:
            return None
        self.k += 1
        return cand[(self.k * 7 + len(SIM.trace)) % len(cand)]

    def _trace_global(self, idx):
        mine = self.switches[idx]

        def local(frame, event, arg):
            if event == "line":
                SIM.steps += 1
                self.local[idx] += 1
                if self.fuel is not None and self.local[idx] > self.fuel:
                    from ..core import SimFuelExhausted

                    raise SimFuelExhausted(f"more than {self.fuel} line events")
                if mine and self.local[idx] >= mine[0]:
                    while mine and self.local[idx] >= mine[0]:
                        mine.pop(0)
                    self._yield(idx)
            return local

        def glob(frame, event, arg):
            return local if MARKER in frame.f_code.co_filename else None

        return glob

    def _yield(self, idx):
        with self.cv:
            nxt = self._next_alive(idx)
            if nxt is None:
                return
            SIM.trace.append((SIM.steps, idx, nxt))
            if SIM.ctx is not None:
                SIM.ctx.fault("thread_preemption")
            self.current = nxt
            self.cv.notify_all()
            while self.current != idx:
                if not self.cv.wait(timeout=120):
                    raise RuntimeError("simulated thread scheduler stalled")

    def _worker(self, idx):
        with self.cv:
            while self.current != idx:
                if not self.cv.wait(timeout=120):
                    self.results[idx] = ("err", RuntimeError("scheduler stalled"))
                    return
        sys.settrace(self._trace_global(idx))
        try:
            self.results[idx] = ("ok", self.funcs[idx]())
        except BaseException as e:  # noqa: BLE001
            self.results[idx] = ("err", e)
        finally:
            sys.settrace(None)
            with self.cv:
                self.alive.discard(idx)
                self.finish_order.append(idx)
                self.current = self._next_alive(idx)
                self.cv.notify_all()

    def run(self):
        threads = [threading.Thread(target=self._worker, args=(i,), name=f"sim-task-{i}", daemon=True) for i in range(self.n)]
        for t in threads:
            t.start()
        with self.cv:
            self.current = self.order[0] if self.order else None
            self.cv.notify_all()
        for t in threads:
            t.join(timeout=300)
            if t.is_alive():
                raise RuntimeError("simulated thread did not finish")
        return self.results


# --------------------------------------------------------------------------
# the check
# --------------------------------------------------------------------------


class C20Check(Check):
    prop = "C20"
    engine = "parsim"
    sim_time_unit = "line events executed inside skactiveml by the wrapper's tasks"
    components = {
        "real": [
            "skactiveml.pool.ParallelUtilityEstimationWrapper",
            "the wrapped pool strategies (whitelist of chunk-compatible strategies) and their models",
            "joblib.Parallel (dispatching, batching, result ordering)",
            "cloudpickle / pickle (isolated mode)",
        ],
        "stub": [
            "joblib backend 'verif_sim' (replaces loky/threading workers: seeded task order, pickle isolation, baton-scheduled threads with seeded pre-emption)",
            "skactiveml.pool._wrapper.cpu_count (patched to the simulated core count)",
        ],
    }
    rule = (
        "run = one inner strategy (whitelist) x pool x labelling x candidate mode x n_jobs (1 .. candidates+3, -1, -2) x simulated CPU "
        "count x backend mode (task order permutation / pickle isolation / baton threads with up to 6 seeded pre-emptions (at task-local line counts) inside "
        "skactiveml code). Oracle: wrapper utilities == utilities of the inner strategy queried once sequentially, pick attains the maximum and "
        "equals the inner pick for equal seeds. Non-trivial: at least two tasks and (a permuted order, isolation, or at least one pre-emption "
        "that landed while another task was in flight) or n_jobs exceeding the candidates / a negative n_jobs. Distinct by (inner strategy, mode, "
        "n_jobs class, cpu, number of pre-emptions, probes)."
    )
    fault_kinds = ["task_reorder", "worker_isolation", "thread_preemption", "cpu_count_skew", "n_jobs_exceeds_candidates", "n_jobs_negative"]
    probes_expected = ["multi_task", "preempted_in_flight", "fewer_candidates_than_cpus", "single_candidate", "utilities_compared", "pick_compared", "tie_at_max", "wrapper_used_before", "wrapped_strategy_replaced"]
    assumptions = [
        "only the parallel-wrapper clause of C20 is decided here; the sub-sampling and single-annotator wrapper clauses are pure given the seed",
        "inner strategies are restricted to those whose candidate utilities are independent of the other candidates and that accept feature-row candidates; a divergence is only reported after the sequential evaluation of the same chunks agreed with the unchunked inner query",
        "pick equality is only demanded when the two utility rows are bit-identical or the top-two gap exceeds 1e-9",
        "thread pre-emption is at Python line granularity inside skactiveml; loky is represented by pickle isolation, not by real processes",
    ]
    tiers = {"quick": {"runs": 2000, "wall_cap": 600, "chunk": 8}, "thorough": {"runs": 40000, "wall_cap": 3300, "chunk": 16}}

    def generate(self, rng: SimRng):
        g = rng.fork("workload")
        f = rng.fork("schedule")
        key = g.pick(WHITELIST)
        e = R.ENTRIES[key]
        heavy = e["flags"].get("heavy")
        n = g.pick([3, 4, 6, 8, 12, 16, 24]) if not heavy else g.pick([3, 4, 6, 8])
        d = g.pick([1, 2, 2, 3])
        kind = g.pick(POOL_KINDS)
        X, yt = R.make_pool(g, n, d, e["task"], kind)
        n_lab = g.pick([0, 1, 2, max(0, n // 2), n - 1])
        n_lab = min(n_lab, n - 1)
        lab_idx = sorted(g.sample(range(n), n_lab))
        y0 = [None] * n
        for i in lab_idx:
            y0[i] = float(yt[i])
        u = n - n_lab
        mode = f.pick(["order", "isolated", "threads", "threads"])
        cpu = f.pick([1, 2, 3, 4, 16, 64])
        nj = f.pick([1, 2, 3, u, u + 3, -1, -1, -2, -3, -5, max(1, u // 2)])
        sc = {
            "engine": "parsim",
            "entry": key,
            "model": g.pick(e["models"]),
            "seed": g.randrange(0, 1000),
            "model_seed": g.randrange(0, 50),
            "classes": [0, 1],
            "X": X.tolist(),
            "y0": y0,
            "pool_kind": kind,
            "cand": g.pick(["none", "none", "idx", "idx_lab"]),
            "pd_n_jobs": f.pick([None, None, None, None, 1, 4, 50]),
            "str_labels": rng.fork("str").chance(0.15),
            "n_jobs": int(nj),
            "cpu": int(cpu),
            "mode": mode,
            "perm": f.sample(range(80), 80),
            # arguments the wrapper only forwards: per-sample weights of the training data
            # (not for the strategies that need a mapping from candidates to X once weights are given: they refuse
            # the feature-row chunks the wrapper hands them)
            "sample_weight": [round(g.uniform(0.2, 3.0), 2) for _ in range(n)]
            if ("sample_weight" in R.query_params(key) and e["cls"] not in ("KLDivergenceMaximization", "ExpectedModelOutputChange", "ExpectedModelVarianceReduction") and g.chance(0.35))
            else None,
            # a pool of integer dtype (e.g. counts) is a legal X
            "int_X": g.chance(0.15),
            # pre-emption plan: [task rank, fraction of that task's own run length], at most 6 per run
            # (a quarter of the points right at the start of a task: races on state that is set up in the task's
            # first statements)
            "switches": sorted([f.randrange(0, 4), f.pick([0.0, 0.001, 0.003, 0.01]) if f.chance(0.25) else round(f.random() ** f.pick([1, 2]), 4)] for _ in range(f.pick([0, 1, 2, 3, 4, 6]))) if mode == "threads" else [],
        }
        # earlier use of the same wrapper object: a query with another candidate set of the same size and, for half
        # of them, with another configuration of the wrapped strategy that is replaced through set_params afterwards
        h = rng.fork("history")
        if h.chance(0.35):
            sibs = [k for k in WHITELIST if k != key and R.ENTRIES[k]["cls"] == e["cls"] and R.ENTRIES[k]["task"] == e["task"] and sc["model"] in R.ENTRIES[k]["models"]]
            sc["history"] = {"prior_cand_seed": h.randrange(0, 10**6), "sibling": h.pick(sibs) if sibs and h.chance(0.5) else None, "same_cand": h.chance(0.2)}
        return sc

    # ------------------------------------------------------------------
    def _objects(self, sc):
        from skactiveml.pool import ParallelUtilityEstimationWrapper

        st = bool(sc.get("str_labels")) and R.ENTRIES[sc["entry"]]["task"] == "clf"
        overrides = {"classes": [R.label_name(c) for c in sc["classes"]], "missing_label": None} if st else None
        inner = R.build_strategy(sc["entry"], sc["seed"], overrides=overrides)
        arg, fit = R.model_arg(sc["entry"])
        kw = {}
        if arg:
            kw[arg] = R.model(sc["model"], classes=sc["classes"], seed=sc["model_seed"], str_labels=st)
        pd = {"backend": "verif_sim"}
        if sc.get("pd_n_jobs") is not None:
            pd["n_jobs"] = int(sc["pd_n_jobs"])  # tolerated (with a warning): the wrapper's own n_jobs decides
        wrapper = ParallelUtilityEstimationWrapper(query_strategy=inner, n_jobs=sc["n_jobs"], parallel_dict=pd, random_state=sc["seed"], **({"missing_label": None} if st else {}))
        return inner, wrapper, kw

    def execute(self, sc, keep_log=False):
        import skactiveml.pool._wrapper as W

        ctx = Ctx(self.prop, keep_log)
        backend_class()
        subj = "ParallelUtilityEstimationWrapper"
        inner_cls = R.ENTRIES[sc["entry"]]["cls"]
        X = np.array(sc["X"], dtype=float)
        if sc.get("int_X"):
            X = np.round(X * 3).astype(np.int64)
        y_num = to_y(sc["y0"])
        unl = np.where(np.isnan(y_num))[0]
        y = y_num
        if sc.get("str_labels") and R.ENTRIES[sc["entry"]]["task"] == "clf":
            # class names are strings, a missing label is None (strategy, wrapper, model and label vector alike)
            y = np.full(y_num.shape, None, dtype=object)
            y[~np.isnan(y_num)] = [R.label_name(v) for v in y_num[~np.isnan(y_num)]]
            ctx.probe("string_class_labels")
        cand = None if sc["cand"] == "none" else unl[:: 2 if len(unl) > 3 else 1].copy()
        if sc["cand"] == "idx_lab":
            # an index set may also name samples that already carry a label (strategies that score samples
            # independently accept arbitrary index sets)
            lab = np.where(~np.isnan(y_num))[0]
            cand = np.sort(np.concatenate([cand, lab[:: 2 if len(lab) > 2 else 1]])).astype(int)
            if len(lab):
                ctx.probe("labeled_index_candidates")
        sw_kw = {} if sc.get("sample_weight") is None else {"sample_weight": np.array(sc["sample_weight"], dtype=float)}
        n_cand = len(unl) if cand is None else len(cand)
        cond = {"inner": inner_cls, "mode": sc["mode"], "n_jobs_negative": sc["n_jobs"] < 0, "fewer_candidates_than_cpus": n_cand < sc["cpu"]}
        np.random.seed(sc.get("run_seed", 0) % (2**32))
        # ---- reference: the inner strategy queried once, sequentially, on the same candidates
        try:
            inner, _, kw = self._objects(sc)
            kw.update(sw_kw)
            ref_idx, ref_u = inner.query(X, y, candidates=None if cand is None else cand.copy(), batch_size=1, return_utilities=True, **kw)
            ref_u = np.asarray(ref_u, dtype=float)[0]
        except Exception as e:
            ctx.notes.append(f"inner strategy refused the scenario: {e!r}"[:160])
            return ctx.result(sig="inner-refused|" + sc["entry"], extra={"aborted": True, "notes": ctx.notes})
        # ---- the wrapper under the simulated backend
        old_cpu = W.cpu_count
        W.cpu_count = lambda: sc["cpu"]
        SIM.mode = sc["mode"]
        SIM.cpu = sc["cpu"]
        SIM.perm = list(sc["perm"])
        SIM.ctx = ctx
        SIM.trace = []
        SIM.steps = 0
        SIM.waves = 0
        SIM.tasks = 0
        SIM.completion_order = []
        SIM.switches = {}
        try:
            if sc["mode"] == "threads" and sc.get("switches"):
                # calibrate: length of the sequential execution in line events (also a 'quiet' world)
                _, wrapper0, kw0 = self._objects(sc)
                SIM.mode = "order"
                try:
                    wrapper0.query(X, y, candidates=None if cand is None else cand.copy(), batch_size=1, return_utilities=True, **kw0, **sw_kw)
                except Exception:
                    pass
                per_task = max(SIM.steps, 1) / max(SIM.tasks, 1)
                SIM.mode = "threads"
                SIM.steps = 0
                SIM.tasks = 0
                SIM.waves = 0
                for rank, frac in sc["switches"]:
                    SIM.switches.setdefault(int(rank), []).append(max(1, int(frac * per_task)))
            _, wrapper, kw = self._objects(sc)
            err = None
            from ..core import canon as _canon

            hist = sc.get("history")
            if hist:
                # the wrapper object has been used before (nothing of that use may show in the judged call)
                kw_h = dict(kw, **sw_kw)
                idx_now = unl if cand is None else cand
                hr = np.random.RandomState(hist["prior_cand_seed"])
                prior = np.sort(hr.choice(len(X), size=len(idx_now), replace=False)).astype(int) if not hist.get("same_cand") else np.array(idx_now, dtype=int)
                if hist.get("sibling"):
                    st_ = bool(sc.get("str_labels")) and R.ENTRIES[sc["entry"]]["task"] == "clf"
                    ov_ = {"classes": [R.label_name(c) for c in sc["classes"]], "missing_label": None} if st_ else None
                    wrapper.set_params(query_strategy=R.build_strategy(hist["sibling"], sc["seed"], overrides=ov_))
                    ctx.probe("wrapped_strategy_replaced")
                try:
                    wrapper.query(X, y, candidates=prior, batch_size=1, return_utilities=True, **kw_h)
                    ctx.probe("wrapper_used_before")
                except Exception as e:  # judged in its own run when it is the judged call; here it is only history
                    ctx.notes.append(f"earlier call on the wrapper refused: {type(e).__name__}"[:100])
                if hist.get("sibling"):
                    wrapper.set_params(query_strategy=self._objects(sc)[0])
            wp0 = _canon(wrapper.get_params(deep=True))
            try:
                kw.update(sw_kw)
                w_idx, w_u = wrapper.query(X, y, candidates=None if cand is None else cand.copy(), batch_size=1, return_utilities=True, **kw)
                w_u = np.asarray(w_u, dtype=float)[0]
            except Exception as e:
                err = e
        finally:
            W.cpu_count = old_cpu
            SIM.ctx = None
        ctx.sim_time = SIM.steps
        wp1 = _canon(wrapper.get_params(deep=True))
        if wp1 != wp0:
            changed = sorted(k for k in set(wp0) | set(wp1) if wp0.get(k) != wp1.get(k))
            ctx.violate("wrapper-parameters-changed", subj, f"query changed the wrapper's constructor parameters {changed} (n_jobs={sc['n_jobs']}, {n_cand} candidates)", dict(cond, params=changed))
        if SIM.tasks >= 2:
            ctx.probe("multi_task")
        if sc["mode"] == "isolated":
            ctx.fault("worker_isolation", SIM.tasks)
        if sc["mode"] != "threads" and SIM.tasks >= 2 and sc["perm"][: SIM.tasks] != sorted(sc["perm"][: SIM.tasks]):
            ctx.fault("task_reorder")
        if sc["n_jobs"] < 0:
            ctx.fault("n_jobs_negative")
        elif sc["n_jobs"] > n_cand:
            ctx.fault("n_jobs_exceeds_candidates")
        if sc["cpu"] != 16:
            ctx.fault("cpu_count_skew")
        if n_cand < sc["cpu"]:
            ctx.probe("fewer_candidates_than_cpus")
        if n_cand == 1:
            ctx.probe("single_candidate")
        if SIM.trace:
            ctx.probe("preempted_in_flight", len(SIM.trace))
        ctx.log.add("trace", SIM.trace)
        sig = "|".join([sc["entry"], sc["mode"], "neg" if sc["n_jobs"] < 0 else ("gt" if sc["n_jobs"] > n_cand else "le"), str(sc["cpu"]), str(len(SIM.trace)), ",".join(sorted(ctx.probes))])
        if err is not None and self._sequential_chunks_agree(sc, X, y, cand, unl, ref_u) == "raises":
            # the wrapped strategy itself refuses these chunks (e.g. sample_weight without a mapping to X for
            # feature-row candidates): not a compatible inner strategy for this call, nothing to judge
            ctx.notes.append(f"inner strategy refuses chunked evaluation: {type(err).__name__}: {str(err)[:100]}")
            return ctx.result(sig=sig, extra={"aborted": True, "notes": ctx.notes})
        if err is not None:
            ctx.violate(
                "wrapper-raises",
                subj,
                f"wrapper.query raised {type(err).__name__}: {str(err)[:140]} (inner {sc['entry']}, {n_cand} candidates, n_jobs={sc['n_jobs']}, simulated cpu_count={sc['cpu']}, mode {sc['mode']}) although the wrapped strategy answers the same call",
                dict(cond, exc=type(err).__name__),
            )
            return ctx.result(sig=sig)
        ctx.log.add("utilities", w_u)
        ctx.probe("utilities_compared")
        if w_u.shape != ref_u.shape or not close(w_u, ref_u, rtol=1e-12, atol=1e-15):
            # is the inner strategy really chunk-compatible on this input?  evaluate the same chunks sequentially
            if self._sequential_chunks_agree(sc, X, y, cand, unl, ref_u) is True:
                bad = int(np.nanargmax(np.abs(np.nan_to_num(w_u) - np.nan_to_num(ref_u)))) if w_u.shape == ref_u.shape else -1
                ctx.violate(
                    "utilities-differ-from-inner",
                    subj,
                    f"utilities differ from the wrapped {sc['entry']} (mode {sc['mode']}, n_jobs={sc['n_jobs']}, cpu={sc['cpu']}, pre-emptions {SIM.trace[:4]}): sample {bad}: {w_u[bad] if bad >= 0 else w_u.shape} vs {ref_u[bad] if bad >= 0 else ref_u.shape}",
                    cond,
                )
            else:
                ctx.notes.append("inner strategy is not chunk-compatible on this input (sequential chunk evaluation differs): dropped")
            return ctx.result(sig=sig, extra={"notes": ctx.notes})
        # ---- the pick
        try:
            wi = int(np.asarray(w_idx).ravel()[0])
            ri = int(np.asarray(ref_idx).ravel()[0])
        except Exception:
            ctx.violate("pick-malformed", subj, f"wrapper returned {w_idx!r}", cond)
            return ctx.result(sig=sig)
        mx = np.nanmax(ref_u)
        if np.sum(ref_u == mx) > 1:
            ctx.probe("tie_at_max")
        if not (ref_u[wi] >= mx - 1e-9 * max(1.0, abs(mx))):
            ctx.violate("pick-not-maximal", subj, f"wrapper picked sample {wi} with utility {ref_u[wi]} although the maximum is {mx}", cond)
            return ctx.result(sig=sig)
        srt = np.sort(ref_u[~np.isnan(ref_u)])
        gap_clear = len(srt) < 2 or (srt[-1] - srt[-2]) > 1e-9 * max(1.0, abs(srt[-1]))
        # "for equal seeds the same selection" presupposes that the wrapped strategy's selection is a function of
        # (utilities, seed) alone; strategies that consume their generator before selecting (bootstrap draws of
        # ExpectedModelChangeMaximization, ...) break ties differently by construction -> maximality only
        inner_pick_is_seed_function = gap_clear
        if not gap_clear:
            try:
                from skactiveml.utils import check_random_state, simple_batch

                fresh = simple_batch(ref_u.copy(), check_random_state(sc["seed"], int(np.sum(np.isnan(y_num))) + 1), batch_size=1)
                inner_pick_is_seed_function = int(np.asarray(fresh).ravel()[0]) == ri
            except Exception:
                inner_pick_is_seed_function = False
        if (same(w_u, ref_u) or gap_clear) and inner_pick_is_seed_function:
            ctx.probe("pick_compared")
            if wi != ri:
                ctx.violate("pick-differs-for-equal-seeds", subj, f"with equal seeds the wrapper picked {wi}, the wrapped strategy {ri} (utilities identical: {same(w_u, ref_u)})", cond)
        return ctx.result(sig=sig)

    def _sequential_chunks_agree(self, sc, X, y, cand, unl, ref_u):
        """Harness-side evaluation of the chunks, one after the other, on a fresh inner strategy."""
        try:
            inner, _, kw = self._objects(sc)
            if sc.get("sample_weight") is not None:
                kw["sample_weight"] = np.array(sc["sample_weight"], dtype=float)
            idx = unl if cand is None else cand
            n_cand = len(idx)
            nj = sc["n_jobs"]
            k = min(nj, n_cand)
            k = sc["cpu"] if k < 0 else k
            k = max(1, min(k, n_cand))
            parts = []
            for chunk in np.array_split(X[idx], k):
                if len(chunk) == 0:
                    continue
                parts.append(np.asarray(inner.query(X, y, candidates=np.array(chunk), batch_size=1, return_utilities=True, **kw)[1], dtype=float)[0])
            u = np.full(len(X), np.nan)
            u[idx] = np.concatenate(parts)
            return close(u, ref_u, rtol=1e-12, atol=1e-15)
        except Exception:
            return "raises"

    def nontrivial(self, res):
        p = res["probes"]
        f = res["faults"]
        return p.get("multi_task", 0) > 0 and (f.get("task_reorder", 0) + f.get("worker_isolation", 0) + p.get("preempted_in_flight", 0) + f.get("n_jobs_negative", 0) + f.get("n_jobs_exceeds_candidates", 0)) > 0

    def shrink(self, sc):
        if sc.get("history"):
            c = copy.deepcopy(sc)
            del c["history"]
            yield c
            if sc["history"].get("sibling"):
                c = copy.deepcopy(sc)
                c["history"]["sibling"] = None
                yield c
        for j in range(len(sc.get("switches", []))):
            c = copy.deepcopy(sc)
            del c["switches"][j]
            yield c
        n = len(sc["X"])
        for i in range(n - 1, -1, -1):
            if n > 2:
                c = copy.deepcopy(sc)
                del c["X"][i]
                del c["y0"][i]
                yield c
        for i in range(n):
            if sc["y0"][i] is None and sum(v is None for v in sc["y0"]) > 1:
                c = copy.deepcopy(sc)
                c["y0"][i] = float(i % 2)
                yield c
        if sc["mode"] != "order" and not sc.get("switches"):
            c = copy.deepcopy(sc)
            c["mode"] = "order"
            yield c
        if sc["cand"] != "none":
            c = copy.deepcopy(sc)
            c["cand"] = "none"
            yield c
        for nj in (1, 2):
            if sc["n_jobs"] not in (nj,) and sc["n_jobs"] > nj:
                c = copy.deepcopy(sc)
                c["n_jobs"] = nj
                yield c
        if len(sc["X"][0]) > 1:
            c = copy.deepcopy(sc)
            c["X"] = [r[:-1] for r in sc["X"]]
            yield c
        if sc["perm"] != sorted(sc["perm"]):
            c = copy.deepcopy(sc)
            c["perm"] = sorted(sc["perm"])
            yield c
