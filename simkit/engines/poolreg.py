"""Registry of pool strategy subjects and model factories (used by poolsim, parsim).

Everything here is addressed by short string keys so that scenarios stay plain
JSON.  Every estimator supplied by the *simulated caller* gets an integer seed;
any dependence on numpy's global generator that remains therefore originates in
library code or in helpers the library constructs itself (C06).
"""
from __future__ import annotations

import inspect

import numpy as np


def label_name(c):
    """String form of a numeric class label; lexicographic order == numeric order (values 0..99)."""
    return f"c{int(c):02d}"


def model(name, classes=(0, 1), seed=0, str_labels=False):
    """``str_labels``: the caller names the classes with strings and marks a missing label with None."""
    m = _model(name, classes, seed)
    if str_labels:
        names = [label_name(c) for c in classes]
        for est in m if isinstance(m, list) else [m]:
            ps = est.get_params(deep=False)
            if "classes" in ps:
                est.set_params(classes=list(names))
            if "missing_label" in ps:
                est.set_params(missing_label=None)
    return m


def _model(name, classes=(0, 1), seed=0):
    from sklearn.ensemble import RandomForestClassifier, RandomForestRegressor
    from sklearn.gaussian_process import GaussianProcessRegressor
    from sklearn.linear_model import LinearRegression, LogisticRegression
    from sklearn.mixture import BayesianGaussianMixture
    from sklearn.naive_bayes import GaussianNB
    from sklearn.tree import DecisionTreeRegressor

    from skactiveml.classifier import MixtureModelClassifier, ParzenWindowClassifier, SklearnClassifier
    from skactiveml.regressor import NICKernelRegressor, NadarayaWatsonRegressor, SklearnRegressor

    classes = list(classes)
    if name == "pwc":
        return ParzenWindowClassifier(classes=classes, random_state=seed)
    if name == "pwc_g1":
        return ParzenWindowClassifier(classes=classes, random_state=seed, metric_dict={"gamma": 1.0})
    if name == "gnb":
        return SklearnClassifier(GaussianNB(), classes=classes, random_state=seed)
    if name == "lr":
        return SklearnClassifier(LogisticRegression(random_state=seed), classes=classes, random_state=seed)
    if name == "mixture":
        return MixtureModelClassifier(mixture_model=BayesianGaussianMixture(n_components=2, random_state=seed), classes=classes, random_state=seed)
    if name == "rf_ens":
        return SklearnClassifier(RandomForestClassifier(n_estimators=4, random_state=seed), classes=classes, random_state=seed)
    if name == "list_ens":
        return [
            ParzenWindowClassifier(classes=classes, random_state=seed),
            SklearnClassifier(GaussianNB(), classes=classes, random_state=seed + 1),
            ParzenWindowClassifier(classes=classes, random_state=seed + 2, metric_dict={"gamma": 0.2}),
        ]
    if name == "nic":
        return NICKernelRegressor(random_state=seed)
    if name == "nwr":
        return NadarayaWatsonRegressor(random_state=seed)
    if name == "gpr":
        return SklearnRegressor(GaussianProcessRegressor(random_state=seed), random_state=seed)
    if name == "lin":
        return SklearnRegressor(LinearRegression(), random_state=seed)
    if name == "tree":
        return SklearnRegressor(DecisionTreeRegressor(min_samples_leaf=2, random_state=seed), random_state=seed)
    if name == "rf_reg_ens":
        return SklearnRegressor(RandomForestRegressor(n_estimators=4, random_state=seed), random_state=seed)
    if name == "list_reg_ens":
        return [
            NICKernelRegressor(random_state=seed),
            SklearnRegressor(LinearRegression(), random_state=seed),
            # (NadarayaWatsonRegressor predicts NaN without any label -- documented: "with at least one label")
            SklearnRegressor(DecisionTreeRegressor(min_samples_leaf=2, random_state=seed), random_state=seed),
        ]
    if name in ("dtc_cost", "pwc_cost", "knn_cost"):
        # cost-sensitive decisions: exact ties in the expected costs are broken by the classifier's own generator
        from sklearn.neighbors import KNeighborsClassifier
        from sklearn.tree import DecisionTreeClassifier

        cm = [[0.0, 1.0], [1.0, 0.0]] if len(classes) == 2 else (1 - np.eye(len(classes))).tolist()
        if name == "pwc_cost":
            return ParzenWindowClassifier(classes=classes, cost_matrix=cm, random_state=seed)
        est = DecisionTreeClassifier(random_state=seed) if name == "dtc_cost" else KNeighborsClassifier(n_neighbors=2)
        return SklearnClassifier(est, classes=classes, cost_matrix=cm, random_state=seed)
    if name == "disc":
        return ParzenWindowClassifier(classes=[0, 1], random_state=seed)
    raise KeyError(name)


# key -> (class name, init kwargs, model names (first = default), task, flags)
# flags: heavy (lower sampling weight), rows (accepts feature-row candidates),
#        w14 (subject of C14), clusterer (builds an internal clustering model)
_E = {}


def _add(key, cls, init=None, models=(None,), task="clf", **flags):
    _E[key] = dict(key=key, cls=cls, init=dict(init or {}), models=list(models), task=task, flags=flags)


for m in ("least_confident", "margin_sampling", "entropy"):
    _add(f"UncertaintySampling:{m}", "UncertaintySampling", {"method": m}, ["pwc", "gnb", "lr"])
_add("UncertaintySampling:eap", "UncertaintySampling", {"method": "expected_average_precision"}, ["pwc"], heavy=True)
_add("RandomSampling", "RandomSampling")
_add("ProbabilisticAL", "ProbabilisticAL", {}, ["pwc"])
_add("ProbabilisticAL:rbf", "ProbabilisticAL", {"metric": "rbf"}, ["gnb", "pwc"])
_add("EpistemicUncertaintySampling", "EpistemicUncertaintySampling", {}, ["pwc"])
_add("EpistemicUncertaintySampling:pre", "EpistemicUncertaintySampling", {"precompute": True}, ["pwc"])
_add("EpistemicUncertaintySampling:lr", "EpistemicUncertaintySampling", {}, ["lr"], heavy=True)
for m in ("misclassification_loss", "log_loss"):
    _add(f"MonteCarloEER:{m}", "MonteCarloEER", {"method": m}, ["pwc", "gnb"], heavy=True)
_add("MonteCarloEER:sub", "MonteCarloEER", {"subtract_current": True}, ["pwc"], heavy=True)
_add("ValueOfInformationEER", "ValueOfInformationEER", {}, ["pwc", "gnb"], heavy=True)
_add("ValueOfInformationEER:csal", "ValueOfInformationEER", {"consider_unlabeled": False, "consider_labeled": True, "candidate_to_labeled": True, "subtract_current": True}, ["pwc"], heavy=True)
_add("ValueOfInformationEER:norm", "ValueOfInformationEER", {"consider_labeled": False, "normalize": True}, ["pwc"], heavy=True)
for m in ("KL_divergence", "vote_entropy", "variation_ratios"):
    _add(f"QueryByCommittee:{m}", "QueryByCommittee", {"method": m}, ["rf_ens", "list_ens"])
_add("QueryByCommittee:reg", "QueryByCommittee", {}, ["rf_reg_ens", "list_reg_ens"], task="reg")
_add("Quire", "Quire", {"classes": [0, 1]}, heavy=True)
# the caller hands in a kernel matrix (n x n, float64) instead of features
_add("Quire:precomputed", "Quire", {"classes": [0, 1], "metric": "precomputed"}, heavy=True, kernel_X=True, no14=True)
_add("FourDs", "FourDs", {}, ["mixture"], heavy=True)
_add("CostEmbeddingAL", "CostEmbeddingAL", {"classes": [0, 1]}, heavy=True)
_add("ExpectedModelChangeMaximization", "ExpectedModelChangeMaximization", {}, ["lin"], task="reg")
_add("ExpectedModelOutputChange", "ExpectedModelOutputChange", {}, ["nic"], task="reg", heavy=True)
_add("ExpectedModelVarianceReduction", "ExpectedModelVarianceReduction", {}, ["nic"], task="reg", heavy=True)
_add("KLDivergenceMaximization", "KLDivergenceMaximization", {}, ["nic"], task="reg", heavy=True)
# Monte-Carlo integration draws target values through the regressor's sample_y: seed plumbing matters
_add("KLDivergenceMaximization:mc", "KLDivergenceMaximization", {"integration_dict_cross_entropy": {"method": "monte_carlo", "n_integration_samples": 4}, "integration_dict_target_val": {"method": "monte_carlo", "n_integration_samples": 3}}, ["nic"], task="reg", heavy=True)
_add("ExpectedModelOutputChange:mc", "ExpectedModelOutputChange", {"integration_dict": {"method": "monte_carlo", "n_integration_samples": 4}}, ["nic"], task="reg", heavy=True)
_add("ExpectedModelVarianceReduction:mc", "ExpectedModelVarianceReduction", {"integration_dict": {"method": "monte_carlo", "n_integration_samples": 4}}, ["nic"], task="reg", heavy=True)
_add("GreedySamplingX", "GreedySamplingX", {}, task="reg")
_add("GreedySamplingX:metric", "GreedySamplingX", {"metric": "manhattan"}, task="reg")
_add("GreedySamplingTarget", "GreedySamplingTarget", {}, ["lin", "nic"], task="reg")
_add("GreedySamplingTarget:GSy", "GreedySamplingTarget", {"method": "GSy"}, ["lin", "tree"], task="reg")
_add("DiscriminativeAL", "DiscriminativeAL", {}, ["disc"])
_add("DiscriminativeAL:greedy", "DiscriminativeAL", {"greedy_selection": True}, ["disc"])
_add("BatchBALD", "BatchBALD", {}, ["rf_ens", "list_ens"])
_add("GreedyBALD", "GreedyBALD", {}, ["rf_ens", "list_ens"])
_add("Clue", "Clue", {}, ["pwc", "gnb"], clusterer=True)
_add("Clue:seeded", "Clue", {"cluster_algo_dict": {"random_state": 0, "n_init": 1}}, ["pwc"])
_add("DropQuery", "DropQuery", {}, ["pwc"], clusterer=True)
_add("DropQuery:seeded", "DropQuery", {"cluster_algo_dict": {"random_state": 0, "n_init": 1}}, ["pwc"])
_add("CoreSet", "CoreSet")
_add("TypiClust", "TypiClust", {}, clusterer=True)
_add("TypiClust:seeded", "TypiClust", {"cluster_algo_dict": {"random_state": 0, "n_init": 1}, "k": 3})
_add("ProbCover", "ProbCover", {}, clusterer=True)
_add("ProbCover:seeded", "ProbCover", {"cluster_algo_dict": {"random_state": 0, "n_init": 1}, "n_classes": 2})
# array-valued constructor parameter owned by the caller (unsorted on purpose)
_add("ProbCover:deltas", "ProbCover", {"deltas": {"nd": [1.5, 0.25, 3.0, 0.75]}, "cluster_algo_dict": {"random_state": 0, "n_init": 1}, "n_classes": 2}, no14=True)
_add("Badge", "Badge", {}, ["lr", "pwc"])
_add("ContrastiveAL", "ContrastiveAL", {}, ["pwc", "gnb"])
_add("Falcun", "Falcun", {}, ["pwc", "gnb"])
for m in ("random", "diversity", "representativity"):
    _add(f"RegressionTreeBasedAL:{m}", "RegressionTreeBasedAL", {"method": m}, ["tree"], task="reg")

# the two pool wrappers: in the C14 loop with batch_size=1 only (SubSamplingWrapper returns at most its sub-sample
# size by design, the parallel wrapper documents batch_size=1); C05 / C06 use them with any batch size
_add("SubSamplingWrapper:US", "SubSamplingWrapper", {"max_candidates": 0.5}, ["pwc", "gnb"], wrap="UncertaintySampling:entropy", batch1_14=True, rows=False)
_add("SubSamplingWrapper:excl", "SubSamplingWrapper", {"max_candidates": 3, "exclude_non_subsample": True}, ["pwc"], wrap="ProbabilisticAL", batch1_14=True, rows=False)
_add("ParallelWrapper:US", "ParallelUtilityEstimationWrapper", {"n_jobs": 1}, ["pwc"], wrap="UncertaintySampling:margin_sampling", batch1_14=True, batch1=True, rows=False)

# ---- variants that move the constructor parameters the entries above leave at their defaults
# ({"cm": kind} / {"fn": name} / {"cluster": name} are placeholders resolved by build_strategy)
_add("ProbabilisticAL:prior", "ProbabilisticAL", {"prior": 0.5, "m_max": 2, "metric": "rbf", "metric_dict": {"gamma": 0.5}}, ["pwc", "gnb"])
_add("UncertaintySampling:lc_cost", "UncertaintySampling", {"method": "least_confident", "cost_matrix": {"cm": "asym"}}, ["pwc", "gnb"])
_add("UncertaintySampling:ms_cost", "UncertaintySampling", {"method": "margin_sampling", "cost_matrix": {"cm": "asym"}}, ["pwc"])
_add("MonteCarloEER:cost", "MonteCarloEER", {"cost_matrix": {"cm": "asym"}}, ["pwc"], heavy=True)
_add("ValueOfInformationEER:cost", "ValueOfInformationEER", {"cost_matrix": {"cm": "asym"}}, ["pwc"], heavy=True)
_add("QueryByCommittee:KL_eps", "QueryByCommittee", {"method": "KL_divergence", "eps": 1e-3}, ["rf_ens", "list_ens"])
_add("Quire:lmbda", "Quire", {"classes": [0, 1], "lmbda": 0.25, "metric_dict": {"gamma": 0.5}}, heavy=True)
_add("FourDs:lmbda", "FourDs", {"lmbda": 0.4}, ["mixture"], heavy=True)
_add("CostEmbeddingAL:cost", "CostEmbeddingAL", {"classes": [0, 1], "cost_matrix": {"cm": "asym"}, "embed_dim": 2}, heavy=True)
_add("ExpectedModelChangeMaximization:boot", "ExpectedModelChangeMaximization", {"bootstrap_size": 2, "n_train": 0.8, "ord": 1}, ["lin"], task="reg")
_add("ExpectedModelOutputChange:loss", "ExpectedModelOutputChange", {"loss": {"fn": "abs_loss"}}, ["nic"], task="reg", heavy=True)
_add("GreedySamplingX:sq", "GreedySamplingX", {"metric": "euclidean", "metric_dict": {"squared": True}}, task="reg")
_add("GreedySamplingTarget:metrics", "GreedySamplingTarget", {"x_metric": "manhattan", "y_metric": "manhattan", "n_GSx_samples": 2}, ["lin", "nic"], task="reg")
_add("BatchBALD:mc", "BatchBALD", {"n_MC_samples": 3, "eps": 1e-3}, ["rf_ens", "list_ens"])
_add("GreedyBALD:eps", "GreedyBALD", {"eps": 1e-3}, ["rf_ens", "list_ens"])
_add("Clue:mbk", "Clue", {"cluster_algo": {"cluster": "MiniBatchKMeans"}, "cluster_algo_dict": {"random_state": 0, "n_init": 1, "batch_size": 8}}, ["pwc"])
_add("DropQuery:rate", "DropQuery", {"dropout_rate": 0.5, "n_dropout_samples": 3, "cluster_algo_dict": {"random_state": 0, "n_init": 1}}, ["pwc"])
_add("TypiClust:mbk", "TypiClust", {"cluster_algo": {"cluster": "MiniBatchKMeans"}, "cluster_algo_dict": {"random_state": 0, "n_init": 1, "batch_size": 8}, "k": 2})
_add("ProbCover:alpha", "ProbCover", {"alpha": 0.5, "cluster_algo_dict": {"random_state": 0, "n_init": 1}, "n_classes": 2})
_add("ContrastiveAL:nn", "ContrastiveAL", {"nearest_neighbors_dict": {"n_neighbors": 3}, "eps": 1e-3}, ["pwc", "gnb"])
_add("Falcun:gamma", "Falcun", {"gamma": 1.0}, ["pwc", "gnb"])
_add("RegressionTreeBasedAL:rep1", "RegressionTreeBasedAL", {"method": "representativity", "max_iter_representativity": 1}, ["tree"], task="reg")
# a caller-owned clustering dict that does NOT fix the clustering seed: the strategy must derive it from its own
# random_state on every query, in a copy
for _c in ("Clue", "DropQuery", "TypiClust", "ProbCover"):
    _add(f"{_c}:ninit", _c, {"cluster_algo_dict": {"n_init": 1}}, ["pwc"] if _c in ("Clue", "DropQuery") else (None,))
# more workers than candidates towards the end of a loop; real threads (results do not depend on their schedule:
# every task works on its own copy of the strategy)
_add("ParallelWrapper:threads", "ParallelUtilityEstimationWrapper", {"n_jobs": 3, "parallel_dict": {"backend": "threading"}}, ["pwc"], wrap="UncertaintySampling:entropy", batch1_14=True, batch1=True, rows=False)
# a clustering class that is not a KMeans subclass but takes random_state as well
for _c in ("Clue", "DropQuery", "TypiClust", "ProbCover"):
    # (not in the C14 / C07 loops, where a raising query is a violation: scikit-learn's BisectingKMeans itself fails
    # when asked for as many clusters as samples)
    _add(f"{_c}:bisect", _c, {"cluster_algo": {"cluster": "BisectingKMeans"}, "cluster_algo_dict": {"n_init": 1}}, ["pwc"] if _c in ("Clue", "DropQuery") else (None,), no14=True, fragile=True)
_add("SubSamplingWrapper:int", "SubSamplingWrapper", {"max_candidates": 2}, ["pwc"], wrap="UncertaintySampling:lc_cost", batch1_14=True, rows=False)

# strategies that need a mapping from candidates to X (feature-row candidates are refused: MappingError)
for _k, _e in _E.items():
    if _e["cls"] in ("Quire", "TypiClust", "ValueOfInformationEER", "DiscriminativeAL", "ProbCover", "CostEmbeddingAL", "Clue", "DropQuery"):
        _e["flags"]["rows"] = False
    if _e["cls"] == "EpistemicUncertaintySampling":
        _e["flags"]["binary"] = True  # documented: two-class problems only
    if _e["cls"] in ("MonteCarloEER", "ValueOfInformationEER"):
        # fit_clf=False with a caller-fitted classifier is refused by design (IndexClassifierWrapper cannot
        # emulate partial_fit on a classifier of unknown provenance)
        _e["flags"]["noprefit"] = True

ENTRIES = _E


def strategy_class(name):
    import skactiveml.pool as P

    return getattr(P, name)


def build_strategy(entry_key, seed, overrides=None):
    e = ENTRIES[entry_key]
    kw = dict(e["init"])
    if e["flags"].get("wrap"):
        inner_seed = seed if isinstance(seed, int) else 0
        kw["query_strategy"] = build_strategy(e["flags"]["wrap"], inner_seed, overrides=overrides)
    n_cls = len(overrides["classes"]) if overrides and overrides.get("classes") else 2
    kw = {k: _resolve(v, n_cls) for k, v in kw.items()}
    # deep-ish copy of dict params so that caller-owned dicts are fresh per object
    kw = {k: (np.array(v["nd"], dtype=float) if isinstance(v, dict) and set(v) == {"nd"} else (dict(v) if isinstance(v, dict) else (list(v) if isinstance(v, list) else v))) for k, v in kw.items()}
    if overrides:
        kw.update({k: v for k, v in overrides.items() if k != "classes" or "classes" in kw})
    kw["random_state"] = seed
    return strategy_class(e["cls"])(**kw)


def abs_loss(y_true, y_pred):
    return float(np.mean(np.abs(np.asarray(y_true, dtype=float) - np.asarray(y_pred, dtype=float))))


def _resolve(v, n_cls):
    """Placeholders of the registry: cost matrices sized to the class list, named functions, clustering classes."""
    if isinstance(v, dict) and set(v) == {"cm"}:
        return np.array([[0.0 if i == j else 1.0 + ((2 * i + j) % 3) for j in range(n_cls)] for i in range(n_cls)])
    if isinstance(v, dict) and set(v) == {"fn"}:
        return {"abs_loss": abs_loss}[v["fn"]]
    if isinstance(v, dict) and set(v) == {"cluster"}:
        import sklearn.cluster as C

        return getattr(C, v["cluster"])
    return v


def query_params(entry_key):
    e = ENTRIES[entry_key]
    if e["flags"].get("wrap"):
        # the wrappers forward **query_kwargs to the wrapped strategy
        ps = dict(inspect.signature(strategy_class(ENTRIES[e["flags"]["wrap"]]["cls"]).query).parameters)
        return ps
    return inspect.signature(strategy_class(e["cls"]).query).parameters


def model_arg(entry_key):
    """(argument name, fit flag name) of the model argument of query()."""
    ps = query_params(entry_key)
    for a, f in (("clf", "fit_clf"), ("reg", "fit_reg"), ("ensemble", "fit_ensemble"), ("discriminator", None)):
        if a in ps:
            return a, (f if f in ps else None)
    return None, None


def make_pool(rng, n, d, task, kind, n_classes=2):
    """Small data sets with the degeneracies the property lists."""
    X, y = _make_pool(rng, n, d, task, kind)
    if task == "clf" and n_classes > 2:
        # a third class for a slice of the pool (labels 0..n_classes-1)
        nr = rng.np("third")
        extra = nr.random_sample(n) < 0.3
        y = y.copy()
        y[extra] = nr.randint(2, n_classes, int(extra.sum()))
    return X, y


def _make_pool(rng, n, d, task, kind):
    nr = rng.np("pool")
    if kind == "blobs":
        c = nr.normal(0, 2.0, (2, d))
        lab = nr.randint(0, 2, n)
        X = c[lab] + nr.normal(0, 0.7, (n, d))
    elif kind == "separated":
        # two tight, far apart groups: models become certain (probabilities exactly 0/1, utilities exactly 0)
        lab = nr.randint(0, 2, n)
        X = (lab[:, None] * 60.0) + nr.normal(0, 0.3, (n, d))
        mid = nr.random_sample(n) < 0.2  # a few ambiguous points half-way: some utilities stay positive
        X[mid] = 30.0 + nr.normal(0, 0.3, (int(mid.sum()), d))
    elif kind == "dense":
        # many samples within a fraction of a kernel width: class-frequency estimates grow with the pool
        lab = nr.randint(0, 2, n)
        X = nr.normal(0, 0.05, (n, d)) + lab[:, None] * 0.02
    elif kind == "duplicates":
        base = nr.normal(0, 1.5, (max(2, n // 3), d))
        X = base[nr.randint(0, len(base), n)]
        lab = (X[:, 0] > np.median(X[:, 0])).astype(int)
    elif kind == "constant_feature":
        X = nr.normal(0, 1.0, (n, d))
        X[:, -1] = 1.0
        lab = (X[:, 0] > 0).astype(int)
    elif kind == "collinear":
        t = nr.normal(0, 1.0, n)
        X = np.stack([t * (j + 1) for j in range(d)], axis=1)
        lab = (t > 0).astype(int)
    elif kind == "grid":
        vals = np.linspace(-1, 1, 3)
        X = vals[nr.randint(0, 3, (n, d))]
        lab = (X.sum(axis=1) > 0).astype(int)
    else:
        X = nr.uniform(-1, 1, (n, d))
        lab = (X[:, 0] + 0.3 * nr.normal(size=n) > 0).astype(int)
    X = np.round(X, 4)
    if task == "clf":
        y = lab.astype(float)
    else:
        y = np.round(X[:, 0] * 1.5 + 0.5 * lab + 0.1 * nr.normal(size=n), 4)
    return X, y
