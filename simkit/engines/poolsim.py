"""E2 poolsim -- the pool active-learning loop (C14), its frame monitor (C05)
and twin worlds over numpy's process-global generator (C06).

Parties: the pool (arrays owned by the simulated caller), the labelling oracle
(scheduled answers), the model objects handed to the strategy (real, integer
seeds), the real strategy, and -- for C06 -- a foreign actor that shares
numpy's global generator with the library.

Simulated time = active-learning cycle (one query + label reveal).
"""
from __future__ import annotations

import copy
import math
import pickle

import numpy as np

from ..core import Ctx, Fuel, SimFuelExhausted, SimRng, canon, same
from ..runner import Check
from . import poolreg as R

FUEL = 3_000_000

POOL_KINDS = ["blobs", "duplicates", "constant_feature", "collinear", "grid", "uniform", "separated"]


# --------------------------------------------------------------------------
# helpers
# --------------------------------------------------------------------------


def mk_seed(s):
    if isinstance(s, dict) and "rs" in s:
        return np.random.RandomState(s["rs"])
    return s


def nan_list(a):
    return [None if (isinstance(v, float) and v != v) else v for v in a]


def to_y(lst):
    return np.array([np.nan if v is None else v for v in lst], dtype=float)


def deep_fingerprint(o, skip_rng=True, _depth=0):
    """Structural fingerprint of an estimator incl. fitted attributes.

    ``random_state_`` style generators are skipped (``predict`` is specified to
    draw tie-breaks from the model's own generator; that is not 'fitting or
    altering' the model).
    """
    if _depth > 6:
        return "<deep>"
    if isinstance(o, np.random.RandomState):
        return "<rng>" if skip_rng else canon(o)
    if isinstance(o, (list, tuple)):
        return [deep_fingerprint(x, skip_rng, _depth + 1) for x in o]
    if isinstance(o, dict):
        return {str(k): deep_fingerprint(v, skip_rng, _depth + 1) for k, v in sorted(o.items(), key=lambda kv: str(kv[0]))}
    if hasattr(o, "get_params") and hasattr(o, "__dict__") and not isinstance(o, type):
        d = {}
        for k in sorted(vars(o)):
            d[k] = deep_fingerprint(vars(o)[k], skip_rng, _depth + 1)
        return {"est": type(o).__name__, "vars": d}
    if hasattr(o, "__dict__") and not callable(o) and not isinstance(o, type) and type(o).__module__.split(".")[0] in ("sklearn", "skactiveml", "scipy"):
        return {"obj": type(o).__name__, "vars": {k: deep_fingerprint(v, skip_rng, _depth + 1) for k, v in sorted(vars(o).items())}}
    return canon(o)


def fp_diff(a, b, prefix=""):
    if isinstance(a, dict) and isinstance(b, dict):
        out = []
        for k in sorted(set(a) | set(b)):
            if k not in a or k not in b:
                out.append(prefix + k + "(presence)")
            else:
                out.extend(fp_diff(a[k], b[k], prefix + k + "."))
        return out
    if isinstance(a, list) and isinstance(b, list) and len(a) == len(b):
        out = []
        for i, (x, y) in enumerate(zip(a, b)):
            out.extend(fp_diff(x, y, prefix + f"[{i}]."))
        return out
    return [] if a == b else [prefix.rstrip(".")]


# --------------------------------------------------------------------------
# the foreign actor (C06)
# --------------------------------------------------------------------------


class Actor:
    """Owns a share of numpy's global generator; perturbs it on a schedule."""

    def __init__(self, plan=None):
        self.plan = plan or {}
        self.calls = 0
        self.during = 0

    def before_call(self, ctx=None):
        p = self.plan
        self.calls += 1
        if not p:
            return
        if p.get("reseed") is not None:
            np.random.seed((int(p["reseed"]) * 7919 + self.calls * p.get("stride", 1)) % (2**32))
            if ctx:
                ctx.fault("global_rng_reseed")
        k = int(p.get("draws", 0))
        if k:
            np.random.random_sample(k)
            if ctx:
                ctx.fault("global_rng_draws")

    def during_call(self):
        k = int(self.plan.get("during", 0))
        if k:
            np.random.random_sample(k)
            self.during += 1


class InjectedPeerFailure(RuntimeError):
    """A transient failure of the caller's model in the middle of a query (scheduler-injected)."""


class Watcher:
    """C05's stand-in for the actor: sits in every call-back of the caller's model (also in the clones the library
    makes of it).  It (a) looks at the caller's arrays *while the query is running* -- what a concurrent reader of
    the same arrays would see -- and (b) lets the k-th call-back fail, once."""

    def __init__(self):
        self.arrays = None  # name -> (array object, snapshot)
        self.fail_at = None
        self.calls = 0
        self.seen_modified = None
        self.fired = False

    def arm(self, arrays, fail_at):
        self.arrays = {k: (v, v.copy()) for k, v in arrays.items()}
        self.fail_at = fail_at
        self.calls = 0
        self.seen_modified = None
        self.fired = False

    def disarm(self):
        self.arrays = None
        self.fail_at = None

    def during_call(self):
        if self.arrays is None:
            return
        self.calls += 1
        if self.seen_modified is None:
            for k, (a, snap) in self.arrays.items():
                if a.shape != snap.shape or not same(a, snap):
                    self.seen_modified = (k, self.calls)
                    break
        if self.fail_at is not None and self.calls == self.fail_at:
            self.fired = True
            raise InjectedPeerFailure("injected failure of the caller's model")


_ACTOR = Actor()
_CHATTY = {}
_CHAT_METHODS = ("fit", "partial_fit", "predict", "predict_proba", "predict_freq", "predict_target_distribution", "sample_y", "sample_proba", "predict_annotator_perf")


def chatty(obj):
    """Transparent proxy: same class semantics, but each call-back lets the
    foreign actor draw from numpy's global generator (as e.g. sklearn's SVR
    does with its unused seed).  Never changes what the model returns."""
    if isinstance(obj, list):
        return [chatty(o) for o in obj]
    cls = type(obj)
    if cls not in _CHATTY:

        def wrap(name):
            orig = getattr(cls, name)

            def f(self, *a, **kw):
                _ACTOR.during_call()
                return orig(self, *a, **kw)

            f.__name__ = name
            f.__qualname__ = f"{cls.__qualname__}.{name}"
            return f

        ns = {n: wrap(n) for n in _CHAT_METHODS if callable(getattr(cls, n, None))}
        ns["__module__"] = cls.__module__
        _CHATTY[cls] = type(cls.__name__, (cls,), ns)
    return _CHATTY[cls](**obj.get_params(deep=False))


# --------------------------------------------------------------------------
# one world
# --------------------------------------------------------------------------


class PoolWorld:
    def __init__(self, sc, use_chatty=False):
        self.sc = sc
        self.key = sc["entry"]
        self.entry = R.ENTRIES[self.key]
        self.str_labels = bool(sc.get("str_labels")) and self.entry["task"] == "clf"
        overrides = copy.deepcopy(sc.get("init_overrides"))
        if self.str_labels:
            # class names are strings, a missing label is None: strategy, model and label vector use that coding
            overrides = dict(overrides or {})
            overrides["classes"] = [R.label_name(c) for c in sc.get("classes", [0, 1])]
            overrides["missing_label"] = None
        self.qs = R.build_strategy(self.key, mk_seed(sc["seed"]), overrides=overrides)
        self.arg, self.fitflag = R.model_arg(self.key)
        self.params = R.query_params(self.key)
        self.model = None
        if self.arg:
            self.model = R.model(sc["model"], classes=sc.get("classes", [0, 1]), seed=sc.get("model_seed", 0), str_labels=self.str_labels)
            if use_chatty:
                self.model = chatty(self.model)
        self.X = np.array(sc["X"], dtype=float)
        if self.entry["flags"].get("kernel_X"):
            self.X = self.kernel(self.X)

    @staticmethod
    def kernel(X):
        from sklearn.metrics.pairwise import rbf_kernel

        return np.ascontiguousarray(rbf_kernel(X, X, gamma=0.5), dtype=float)

    def encode_y(self, y):
        """The label vector as the caller holds it: NaN-coded floats, or class names with None (string-label mode)."""
        y = np.asarray(y)
        if not self.str_labels or y.dtype == object:
            return y
        out = np.full(y.shape, None, dtype=object)
        lab = ~np.isnan(y)
        out[lab] = [R.label_name(v) for v in y[lab]]
        return out

    def fit_model(self, y, sample_weight=None):
        """The caller pre-fits the model (fit_* = False protocol)."""
        y = self.encode_y(y)
        ms = self.model if isinstance(self.model, list) else [self.model]
        for m in ms:
            if sample_weight is not None:
                m.fit(self.X, y, sample_weight=sample_weight)
            else:
                m.fit(self.X, y)

    def call(self, y, batch_size, return_utilities=False, prefit=False, **extra):
        kw = dict(extra)
        if self.arg:
            kw[self.arg] = self.model
            if prefit and self.fitflag:
                kw[self.fitflag] = False
        kw["batch_size"] = batch_size
        kw["return_utilities"] = return_utilities
        return self.qs.query(self.X, self.encode_y(y), **kw)


def collaborator_sane(w, y):
    """Does the caller's scikit-learn based classifier, cloned and fitted on its own on (X, y), predict valid
    probabilities on the pool?  (Models the library implements itself are always held to their contract.)"""
    from sklearn.base import clone

    from skactiveml.classifier import SklearnClassifier

    models = w.model if isinstance(w.model, list) else [w.model]
    for m in models:
        if not isinstance(m, SklearnClassifier):
            continue
        try:
            c = clone(m).fit(w.X, w.encode_y(y))
            P = np.asarray(c.predict_proba(w.X), dtype=float)
        except Exception:
            return False
        if not np.isfinite(P).all() or (np.abs(P.sum(axis=1) - 1.0) > 1e-6).any() or (P < 0).any():
            return False
    return True


# --------------------------------------------------------------------------
# scenario generation shared by C14 / C05 / C06
# --------------------------------------------------------------------------


def pick_entry(rng: SimRng, pred=lambda e: True, heavy_w=0.25):
    keys = [k for k, e in R.ENTRIES.items() if pred(e)]
    weights = [heavy_w if R.ENTRIES[k]["flags"].get("heavy") else 1.0 for k in keys]
    return rng.choices(keys, weights=weights)[0]


def gen_pool_scenario(rng: SimRng, key, mode, max_n=24, big=False):
    g = rng.fork("workload")
    e = R.ENTRIES[key]
    heavy = e["flags"].get("heavy")
    n = g.pick([2, 3, 4, 6, 8, 12, 16, max_n]) if not heavy else g.pick([3, 4, 6, 8, 10])
    d = g.pick([1, 2, 2, 3])
    kind = g.pick(POOL_KINDS)
    if big and not heavy:
        # a long labelling history on a large, dense pool (counts and frequency sums far beyond the small pools)
        n = g.pick([180, 230])
        kind = "dense"
    classes = [0, 1, 2] if (e["task"] == "clf" and not e["flags"].get("binary") and g.chance(0.3)) else [0, 1]
    X, yt = R.make_pool(g, n, d, e["task"], kind, n_classes=len(classes))
    # initial labelling: from zero labels to a single unlabeled sample
    r = g.random()
    if r < 0.25:
        n_lab = 0
    elif r < 0.4:
        n_lab = n - 1
    elif r < 0.55:
        n_lab = min(n - 1, 1)
    else:
        n_lab = g.randrange(0, n)
    lab_idx = sorted(g.sample(range(n), n_lab))
    y0 = [None] * n
    okind = g.pick(["true", "true", "constant", "prefix_single", "random"])
    nr = g.np("oracle")
    if e["task"] == "clf":
        per = {"true": yt, "constant": np.zeros(n), "prefix_single": yt, "random": nr.randint(0, len(classes), n).astype(float)}[okind]
    else:
        per = {"true": yt, "constant": np.full(n, 0.5), "prefix_single": yt, "random": np.round(nr.normal(0, 1, n), 4)}[okind]
    per = [float(v) for v in per]
    for i in lab_idx:
        y0[i] = float(yt[i]) if okind != "constant" else per[i]
    if big and not heavy:
        n_lab = int(0.6 * n)
        lab_idx = sorted(g.sample(range(n), n_lab))
        y0 = [None] * n
        for i in lab_idx:
            y0[i] = float(yt[i]) if okind != "constant" else per[i]
    u = n - n_lab
    bs = g.pick([1, 1, 2, 3, 5, u, u + 2]) if not (big and not heavy) else g.pick([6, 10, 25])
    sc = {
        "engine": "poolsim",
        "mode": mode,
        "entry": key,
        "model": g.pick(e["models"]),
        "seed": g.randrange(0, 1000) if g.chance(0.8) else {"rs": g.randrange(0, 1000)},
        "model_seed": g.randrange(0, 50),
        "classes": classes,
        "init_overrides": {"classes": classes} if len(classes) > 2 else None,
        "X": X.tolist(),
        "y0": y0,
        "pool_kind": kind,
        "batch_size": int(max(1, bs)),
        "oracle": {"kind": okind, "per_sample": per, "prefix_len": g.pick([0, 3, 6]) if okind == "prefix_single" else 0, "prefix_label": 0.0 if e["task"] == "clf" else 0.5},
        "return_utilities": g.chance(0.5),
        "prefit": g.chance(0.2),
        "str_labels": bool(e["task"] == "clf" and g.fork("str").chance(0.15)),
    }
    if e["flags"].get("batch1"):
        sc["batch_size"] = 1
    return sc


def oracle_answer(sc, idx, revealed_so_far):
    o = sc["oracle"]
    out = []
    for j, i in enumerate(idx):
        if revealed_so_far + j < o.get("prefix_len", 0):
            out.append(o["prefix_label"])
        else:
            out.append(o["per_sample"][int(i)])
    return out


def shrink_pool(sc):
    """Reductions common to pool scenarios."""
    n = len(sc["X"])
    # drop a sample (prefer unlabeled last)
    for i in list(range(n - 1, -1, -1))[: min(n, 12)]:
        if n > 2:
            c = copy.deepcopy(sc)
            del c["X"][i]
            del c["y0"][i]
            del c["oracle"]["per_sample"][i]
            if "ops" in c:
                for op in c["ops"]:
                    for k in ("cand_idx",):
                        if op.get(k) is not None:
                            op[k] = [j if j < i else j - 1 for j in op[k] if j != i]
                    for k in ("sw", "uw"):
                        if isinstance(op.get(k), list) and len(op[k]) == n:
                            del op[k][i]
            yield c
    # label one more sample initially
    for i in range(n):
        if sc["y0"][i] is None and sum(v is None for v in sc["y0"]) > 1:
            c = copy.deepcopy(sc)
            c["y0"][i] = sc["oracle"]["per_sample"][i]
            yield c
    if sc.get("batch_size", 1) > 1:
        for b in (1, sc["batch_size"] // 2):
            if 1 <= b < sc["batch_size"]:
                c = copy.deepcopy(sc)
                c["batch_size"] = b
                yield c
    if len(sc["X"][0]) > 1:
        c = copy.deepcopy(sc)
        c["X"] = [r[:-1] for r in sc["X"]]
        for op in c.get("ops", []):
            if op.get("cand_rows") is not None:
                op["cand_rows"] = [r[:-1] for r in op["cand_rows"]]
        yield c
    if sc["oracle"].get("prefix_len"):
        c = copy.deepcopy(sc)
        c["oracle"]["prefix_len"] = 0
        yield c
    for flag in ("return_utilities", "prefit"):
        if sc.get(flag):
            c = copy.deepcopy(sc)
            c[flag] = False
            yield c
    if isinstance(sc.get("seed"), dict):
        c = copy.deepcopy(sc)
        c["seed"] = sc["seed"]["rs"]
        yield c
    # rounder numbers
    c = copy.deepcopy(sc)
    c["X"] = [[round(v, 1) for v in r] for r in sc["X"]]
    if c["X"] != sc["X"]:
        yield c


class PoolCheckBase(Check):
    engine = "poolsim"
    sim_time_unit = "active-learning cycles (query + label reveal)"
    components = {
        "real": [
            "all single-annotator strategies exported by skactiveml.pool (registry: simkit/engines/poolreg.py)",
            "skactiveml classifiers / regressors and scikit-learn estimators passed as models (integer seeds)",
            "numpy global RandomState (simulated resource, reset per run)",
        ],
        "stub": ["labelling oracle (scheduled answers)", "foreign actor drawing from numpy's global generator (C06)", "Chatty proxy: dynamic subclass of the model class that lets the actor draw at each fit/predict call-back, otherwise transparent (C06)"],
    }


# --------------------------------------------------------------------------
# C14 -- a pool loop labels every sample exactly once
# --------------------------------------------------------------------------


class C14Check(PoolCheckBase):
    prop = "C14"
    rule = (
        "run = one strategy object x one pool x initial labelling x batch size x scheduled oracle answers, driven through the whole "
        "standard loop until the pool is exhausted (state kept between cycles takes part). No infrastructure fault exists for a "
        "synchronous loop; the searched space is histories (oracle answer sequences). Non-trivial: at least two cycles and one of the "
        "late/degenerate regimes reached (cold start, single candidate left, one class only so far, duplicated points, clipped batch). "
        "Distinct by (registry entry, model, pool kind, oracle kind, probe set, size bucket)."
    )
    fault_kinds = ["oracle_constant", "oracle_prefix_single", "oracle_random"]
    probes_expected = ["cold_start", "single_candidate_left", "one_class_only", "duplicate_points", "batch_clipped", "tie_at_argmax", "multi_cycle"]
    assumptions = [
        "the two pool wrappers are not subjects (SubSamplingWrapper returns at most its sub-sample size by design; the parallel wrapper supports batch_size=1 only)",
        "termination is judged with a deterministic fuel of %d line events inside skactiveml per query (times (n/40)^2 for pools of more than 40 samples)" % FUEL,
        "shape and dtype of the returned array are C01's business: the result is flattened before it is judged",
    ]
    tiers = {"quick": {"runs": 4500, "wall_cap": 600, "chunk": 10}, "thorough": {"runs": 90000, "wall_cap": 3300, "chunk": 25}}

    def generate(self, rng: SimRng):
        key = pick_entry(rng.fork("entry"), pred=lambda e: not e["flags"].get("no14"))
        big = self.tier == "thorough" and rng.fork("big").chance(0.01)
        sc = gen_pool_scenario(rng, key, "C14", max_n=40 if self.tier == "thorough" else 24, big=big)
        sc["prefit"] = False  # the *standard* loop: default fit flags (fit_*=False is exercised by C05)
        if R.ENTRIES[key]["flags"].get("batch1_14"):
            sc["batch_size"] = 1
        return sc

    def execute(self, sc, keep_log=False):
        ctx = Ctx(self.prop, keep_log)
        e = R.ENTRIES[sc["entry"]]
        subj = e["cls"]
        np.random.seed(sc.get("run_seed", 0) % (2**32))
        try:
            w = PoolWorld(sc)
        except Exception as ex:
            ctx.notes.append(f"construction failed: {ex!r}")
            return ctx.result(sig=subj + "|ctor", extra={"aborted": True, "notes": ctx.notes})
        y = to_y(sc["y0"])
        n = len(y)
        u0 = int(np.isnan(y).sum())
        bs = sc["batch_size"]
        X = w.X
        if len(np.unique(X, axis=0)) < n:
            ctx.probe("duplicate_points")
        if sc["oracle"]["kind"] != "true":
            ctx.fault("oracle_" + sc["oracle"]["kind"])
        revealed = 0
        cycles = 0
        cond = {"entry": sc["entry"]}
        if w.str_labels:
            cond["str_labels"] = True
            ctx.probe("string_class_labels")
        while np.isnan(y).any():
            u = int(np.isnan(y).sum())
            if u == n:
                ctx.probe("cold_start")
            if u == 1:
                ctx.probe("single_candidate_left")
            if e["task"] == "clf" and len(set(y[~np.isnan(y)].tolist())) == 1:
                ctx.probe("one_class_only")
            if bs > u:
                ctx.probe("batch_clipped")
            if sc.get("prefit") and w.arg and w.fitflag:
                try:
                    w.fit_model(y)
                except Exception as ex:
                    ctx.notes.append(f"caller-side fit failed: {ex!r}")
                    return ctx.result(sig=self._sig(sc, ctx), extra={"aborted": True, "notes": ctx.notes})
            try:
                # the step budget grows with the pool (the rare large pools of the thorough tier legitimately need
                # more steps: e.g. a pre-computed table over all label counts)
                with Fuel(int(FUEL * max(1.0, (n / 40.0) ** 2))):
                    res = w.call(y, bs, return_utilities=sc.get("return_utilities", False), prefit=sc.get("prefit", False))
            except SimFuelExhausted:
                ctx.violate("query-does-not-terminate", subj, f"cycle {cycles}: query used more than {int(FUEL * max(1.0, (n / 40.0) ** 2))} line events ({u} unlabeled, batch {bs}, pool of {n})", cond)
                break
            except Exception as ex:
                if not collaborator_sane(w, y):
                    # the caller's scikit-learn model, fitted on its own on these labels, returns probabilities that are
                    # not probabilities (e.g. GaussianNB on coinciding points of different classes: rows of ones);
                    # what a strategy does with them is not the loop's business
                    ctx.probe("collaborator_invalid_proba")
                    return ctx.result(sig=self._sig(sc, ctx), extra={"aborted": True, "notes": [f"collaborator returns invalid probabilities; query raised {type(ex).__name__}"]})
                ctx.violate("query-raises", subj, f"cycle {cycles} ({u} unlabeled, batch {bs}): {type(ex).__name__}: {str(ex)[:160]}", dict(cond, exc=type(ex).__name__))
                break
            utils = None
            if sc.get("return_utilities"):
                try:
                    res, utils = res
                except Exception:
                    ctx.violate("query-raises", subj, f"cycle {cycles}: return_utilities=True did not return a pair", cond)
                    break
            try:
                idx = np.asarray(res).astype(int).ravel()
                if not np.array_equal(idx, np.asarray(res, dtype=float).ravel()):
                    raise ValueError("non-integer index")
            except Exception:
                ctx.violate("wrong-count", subj, f"cycle {cycles}: result {res!r} is not an index array", cond)
                break
            ctx.log.add("query", idx)
            want = min(bs, u)
            if ((idx < 0) | (idx >= n)).any():
                ctx.violate("labeled-sample-selected", subj, f"cycle {cycles}: index outside the pool in {idx.tolist()}", cond)
                break
            if len(set(idx.tolist())) != len(idx):
                ctx.violate("duplicate-in-batch", subj, f"cycle {cycles}: batch {idx.tolist()} contains a sample twice ({u} unlabeled, batch {bs})", cond)
                break
            if not np.isnan(y[idx]).all():
                ctx.violate("labeled-sample-selected", subj, f"cycle {cycles}: batch {idx.tolist()} contains already labeled samples {idx[~np.isnan(y[idx])].tolist()}", cond)
                break
            if len(idx) != want:
                ctx.violate("wrong-count", subj, f"cycle {cycles}: {len(idx)} samples returned, min(batch_size={bs}, unlabeled={u})={want} expected", cond)
                break
            if utils is not None:
                try:
                    row = np.asarray(utils, dtype=float)[0]
                    if row.ndim == 1 and np.sum(row == np.nanmax(row)) > 1:
                        ctx.probe("tie_at_argmax")
                except Exception:
                    pass
            y[idx] = oracle_answer(sc, idx, revealed)
            revealed += len(idx)
            cycles += 1
            ctx.sim_time += 1
            if cycles > u0 + 2:  # cannot happen when the count clause holds
                ctx.violate("wrong-count", subj, "loop did not exhaust the pool", cond)
                break
        if cycles >= 2:
            ctx.probe("multi_cycle")
        self._last_state = (cycles, nan_list(y.tolist()))
        if not ctx.violations and cycles != math.ceil(u0 / bs):
            ctx.violate("wrong-count", subj, f"pool exhausted after {cycles} queries, ceil({u0}/{bs}) expected", cond)
        return ctx.result(sig=self._sig(sc, ctx), extra={"notes": ctx.notes[:3]})

    def _sig(self, sc, ctx):
        return "|".join([sc["entry"], str(sc["model"]), sc["pool_kind"], sc["oracle"]["kind"], ",".join(sorted(ctx.probes)), str(int(math.log2(max(len(sc["X"]), 1)))), str(min(sc["batch_size"], 4))])

    def nontrivial(self, res):
        p = res["probes"]
        return p.get("multi_cycle", 0) > 0 and any(p.get(k, 0) > 0 for k in ("cold_start", "single_candidate_left", "one_class_only", "duplicate_points", "batch_clipped"))

    def shrink(self, sc):
        # history shrinker: start directly from the labelling reached before the failing cycle
        try:
            self._last_state = None
            self.execute(sc)
            cycles, y_state = self._last_state or (0, None)
        except Exception:
            cycles, y_state = 0, None
        if cycles > 0 and y_state is not None:
            c = copy.deepcopy(sc)
            c["y0"] = y_state
            c["oracle"]["prefix_len"] = max(0, sc["oracle"].get("prefix_len", 0) - sum(1 for a, b in zip(sc["y0"], y_state) if a is None and b is not None))
            yield c
        yield from shrink_pool(sc)


# --------------------------------------------------------------------------
# C05 -- pool query has no side effects
# --------------------------------------------------------------------------


class C05Check(PoolCheckBase):
    prop = "C05"
    rule = (
        "run = one long-lived strategy object + one set of model objects + caller-owned arrays living through a seeded sequence of "
        "queries (with/without labelling in between, fit_* on/off with a caller-fitted model, sample_weight / utility_weight / index / "
        "feature-row candidates where supported, all lazily resolved defaults left unset); a frame monitor compares arrays, "
        "get_params(deep=True) by value, model fingerprints, clone and pickle after every call. Non-trivial: at least two queries on "
        "different labellings and at least one optional argument or lazy default exercised. Distinct by (entry, model, op-kind set, probe set)."
    )
    fault_kinds = ["requery_without_labelling", "prefit_model", "optional_args", "data_swap", "peer_failed_mid_query"]
    probes_expected = ["lazy_default_unset", "second_query_other_data", "clone_checked", "pickle_checked", "model_fingerprinted", "arrays_compared", "clone_behaviour_compared", "arrays_observed_during_query"]
    assumptions = [
        "the position of a model's own tie-break generator (random_state_) is not part of the model fingerprint: predict is specified to draw from it",
        "exceptions raised by a query are outside this property (they abort the run, counted separately)",
    ]
    tiers = {"quick": {"runs": 5000, "wall_cap": 600, "chunk": 10}, "thorough": {"runs": 100000, "wall_cap": 3300, "chunk": 25}}

    def generate(self, rng: SimRng):
        key = pick_entry(rng.fork("entry"))
        sc = gen_pool_scenario(rng, key, "C05", max_n=16)
        g = rng.fork("ops")
        e = R.ENTRIES[key]
        ps = R.query_params(key)
        n = len(sc["X"])
        d = len(sc["X"][0])
        ops = []
        for _ in range(g.pick([2, 3, 4, 6])):
            op = {"label": g.chance(0.6), "batch": 1 if e["flags"].get("batch1") else g.pick([1, 1, 2, 3]), "prefit": g.chance(0.3) and not e["flags"].get("noprefit"), "ru": g.chance(0.5)}
            # the caller may also fit the model itself and still leave the fit flag at its default (True)
            op["caller_fits"] = bool(op["prefit"]) or g.chance(0.25)
            if "sample_weight" in ps and g.chance(0.4):
                op["sw"] = [round(g.uniform(0.1, 2.0), 3) for _ in range(n)]
                op["sw_nan"] = g.chance(0.3)
            if "utility_weight" in ps and g.chance(0.4):
                op["uw"] = [round(g.uniform(0.1, 2.0), 3) for _ in range(n)]
            # strategy-specific optional arguments (caller-owned arrays among them)
            if "X_eval" in ps and g.chance(0.3):
                op["x_eval"] = sorted(g.sample(range(n), g.randint(1, n)))
                if "sample_weight_eval" in ps and g.chance(0.5):
                    op["sw_eval"] = True
            if "sample_weight_candidates" in ps and "sw" in op and g.chance(0.5):
                op["sw_cand"] = True
            if "ignore_partial_fit" in ps and g.chance(0.3):
                op["ignore_partial_fit"] = g.chance(0.5)
            if "update" in ps and g.chance(0.3):
                op["update"] = True
            if R.model_arg(key)[0] and g.chance(0.15):
                # the caller's model fails once, at its k-th call-back inside the query
                op["fail_at"] = g.pick([1, 2, 3, 4, 6, 9, 15])
            r = g.random()
            if r < 0.2:
                op["cand"] = "idx"
            elif r < 0.32 and e["flags"].get("rows", True):
                op["cand"] = "rows"
            else:
                op["cand"] = "none"
            ops.append(op)
        sc["ops"] = ops
        sc["swap_data"] = g.chance(0.3)  # second half of the run on a different pool (other scale / size)
        if sc["swap_data"]:
            X2, y2 = R.make_pool(g.fork("swap"), g.pick([5, 9, 14]), d, e["task"], g.pick(POOL_KINDS))
            sc["X2"] = (X2 * g.pick([0.1, 10.0])).round(4).tolist()
            sc["y2_true"] = [float(v) for v in y2]
        return sc

    def execute(self, sc, keep_log=False):
        ctx = Ctx(self.prop, keep_log)
        e = R.ENTRIES[sc["entry"]]
        subj = e["cls"]
        np.random.seed(sc.get("run_seed", 0) % (2**32))
        global _ACTOR
        watcher = Watcher()
        _ACTOR = watcher
        try:
            w = PoolWorld(sc, use_chatty=True)
        except Exception as ex:
            return ctx.result(sig=subj + "|ctor", extra={"aborted": True, "notes": [repr(ex)]})
        qs = w.qs
        params0 = canon(qs.get_params(deep=True))
        unset = [k for k, v in qs.get_params(deep=False).items() if v is None]
        if unset:
            ctx.probe("lazy_default_unset")
        try:
            pickle.dumps(qs)
            pick0 = True
        except Exception:
            pick0 = False
        try:
            from sklearn.base import clone

            clone(qs)
            clone0 = True
        except Exception:
            clone0 = False
        y = to_y(sc["y0"])
        X = w.X
        per = sc["oracle"]["per_sample"]
        cond = {"entry": sc["entry"]}
        aborted = False
        raised = ok_ops = 0
        for t, op in enumerate(sc["ops"]):
            swapped_now = False
            if sc.get("swap_data") and t == len(sc["ops"]) // 2 and t > 0:
                swapped_now = True
                X = np.array(sc["X2"], dtype=float)
                if w.entry["flags"].get("kernel_X"):
                    X = w.kernel(X)
                w.X = X
                y = np.full(len(X), np.nan)
                k = min(2, len(X) - 1)
                y[:k] = np.array(sc["y2_true"][:k])
                per = sc["y2_true"]
                ctx.fault("data_swap")
                ctx.probe("second_query_other_data")
            n = len(X)
            unl = np.where(np.isnan(y))[0]
            if len(unl) == 0:
                break
            kw = {}
            if isinstance(op.get("sw"), list) and "sample_weight" in w.params:
                kw["sample_weight"] = np.resize(np.array(op["sw"], dtype=float), n)
                if op.get("sw_nan"):
                    # the weight of an unlabeled sample is irrelevant; callers often leave it undefined
                    kw["sample_weight"][np.isnan(y)] = np.nan
            if op.get("cand") == "idx":
                kw["candidates"] = unl[:: 2 if len(unl) > 2 else 1].copy()
            elif op.get("cand") == "rows":
                kw["candidates"] = X[unl].copy()
            if isinstance(op.get("uw"), list) and "utility_weight" in w.params:
                # documented length: n_samples, or n_candidates for feature-row candidates
                kw["utility_weight"] = np.resize(np.array(op["uw"], dtype=float), len(unl) if op.get("cand") == "rows" else n)
            if op.get("x_eval") and "X_eval" in w.params:
                ev = np.array([i for i in op["x_eval"] if i < n], dtype=int)
                if len(ev):
                    kw["X_eval"] = X[ev].copy()
                    if op.get("sw_eval") and "sample_weight" in kw:
                        kw["sample_weight_eval"] = np.resize(np.array(op["sw"], dtype=float)[::-1], len(ev)).copy()
            if op.get("sw_cand") and "sample_weight" in kw and "sample_weight_candidates" in w.params and op.get("cand") == "rows":
                # (documented: only together with feature-row candidates)
                n_c = len(kw["candidates"])
                kw["sample_weight_candidates"] = np.resize(np.array(op["sw"], dtype=float), n_c).copy()
            if "ignore_partial_fit" in op and "ignore_partial_fit" in w.params:
                kw["ignore_partial_fit"] = bool(op["ignore_partial_fit"])
            if (op.get("update") or swapped_now) and "update" in w.params:
                kw["update"] = True  # (documented: required after the pool changed)
            if kw:
                ctx.fault("optional_args")
            prefit = bool(op.get("prefit")) and w.arg and w.fitflag
            if (prefit or op.get("caller_fits")) and w.arg:
                try:
                    w.fit_model(y, kw.get("sample_weight"))
                    ctx.fault("prefit_model")
                except Exception as ex:
                    ctx.notes.append(f"caller-side fit failed {ex!r}")
                    prefit = False
            y_arg = w.encode_y(y)  # the label vector object the caller hands in (object dtype in string-label mode)
            arrays = {"X": X, "y": y_arg}
            arrays.update({k: v for k, v in kw.items() if isinstance(v, np.ndarray)})
            before = {k: (v.copy(), v.dtype, v.shape) for k, v in arrays.items()}
            model_fp = deep_fingerprint(w.model) if w.model is not None else None
            watcher.arm(arrays, op.get("fail_at"))
            try:
                res = w.call(y_arg, op["batch"], return_utilities=op.get("ru", False), prefit=prefit, **kw)
            except InjectedPeerFailure:
                # the caller's model failed in the middle of the query: the frame conditions below still hold
                ctx.fault("peer_failed_mid_query")
                raised += 1
                res = None
            except Exception as ex:
                # feature-row candidates / weights are not supported by every strategy: retry is pointless, the
                # property does not speak about exceptions
                ctx.notes.append(f"op {t}: query raised {type(ex).__name__}: {str(ex)[:100]}")
                ctx.probe("op_raised")
                raised += 1
                res = None
            finally:
                watcher.disarm()
            if watcher.calls:
                ctx.probe("arrays_observed_during_query")
            if watcher.seen_modified is not None:
                k_mod, at_call = watcher.seen_modified
                ctx.violate("input-array-modified", subj, f"op {t}: caller array {k_mod!r} differed from its value at call time while the query was running (seen from call-back no. {at_call} of the caller's model; restored or not, a concurrent reader sees it)", dict(cond, array=k_mod, when="during"))
            ctx.log.add("query", res if res is None or not op.get("ru") else res[0])
            # ---- frame monitor
            ctx.probe("arrays_compared")
            for k, (b, dt, sh) in before.items():
                a = arrays[k]
                if a.dtype != dt or a.shape != sh or not same(a, b):
                    ctx.violate("input-array-modified", subj, f"op {t}: caller array {k!r} was modified by query", dict(cond, array=k))
            params1 = canon(qs.get_params(deep=True))
            if params1 != params0:
                changed = sorted(k for k in set(params0) | set(params1) if params0.get(k) != params1.get(k))
                ctx.violate(
                    "constructor-param-changed",
                    subj,
                    f"op {t}: get_params() differs from construction time in {changed}: {[(_s(params0.get(k)), _s(params1.get(k))) for k in changed][:3]}",
                    dict(cond, params=changed),
                )
            if w.model is not None:
                ctx.probe("model_fingerprinted")
                fp1 = deep_fingerprint(w.model)
                if fp1 != model_fp:
                    ctx.violate("model-argument-altered", subj, f"op {t}: the {w.arg} passed by the caller changed in {fp_diff(model_fp, fp1)[:6]}", dict(cond, prefit=bool(prefit)))
            if clone0:
                ctx.probe("clone_checked")
                try:
                    from sklearn.base import clone

                    clone(qs)
                except Exception as ex:
                    ctx.violate("clone-broken", subj, f"op {t}: sklearn.clone(strategy) fails after query: {type(ex).__name__}: {str(ex)[:120]}", cond)
            if pick0:
                ctx.probe("pickle_checked")
                try:
                    pickle.dumps(qs)
                except Exception as ex:
                    ctx.violate("pickle-broken", subj, f"op {t}: pickle.dumps(strategy) fails after query: {type(ex).__name__}: {str(ex)[:120]}", cond)
            if ctx.violations:
                break
            if res is None:
                continue  # the frame conditions were still judged; the next operation runs on unchanged labels
            ok_ops += 1
            idx = np.asarray(res[0] if op.get("ru") else res).astype(int).ravel()
            if op.get("cand") == "rows":
                idx = unl[idx[idx < len(unl)]]
            if op.get("label"):
                idx = idx[(idx >= 0) & (idx < n)]
                y = y.copy()
                y[idx] = np.array(per)[idx]
            else:
                ctx.fault("requery_without_labelling")
            ctx.sim_time += 1
        # ---- "... and a clone behaves like the original": the used object, its clone and its pickle round trip
        # answer one more query (same arguments, numpy's global generator pinned) alike
        if not ctx.violations and ok_ops and np.isnan(y).any() and clone0 and pick0:
            from sklearn.base import clone

            def answer(strategy):
                w.qs = strategy
                np.random.seed(12345)
                try:
                    # (a strategy with documented state between queries -- ProbCover's cached radius -- is asked to
                    # recompute it: `update=True`)
                    extra = {"update": True} if "update" in w.params else {}
                    r = w.call(y.copy(), 1 if e["flags"].get("batch1") else min(2, int(np.isnan(y).sum())), return_utilities=True, prefit=False, **extra)
                    return ("ok", np.asarray(r[0]).tolist(), np.asarray(r[1], dtype=float))
                except Exception as ex:
                    return ("exc", type(ex).__name__)

            try:
                variants = [("clone", clone(qs)), ("pickle round trip", pickle.loads(pickle.dumps(qs)))]
            except Exception:
                variants = []
            if variants:
                ref = answer(qs)
                for nm, v in variants:
                    got = answer(v)
                    ctx.probe("clone_behaviour_compared")
                    if not same(ref, got):
                        ctx.violate("clone-behaves-differently", subj, f"after {ok_ops} queries the {nm} of the strategy answers {_s(got)} where the original answers {_s(ref)}", dict(cond, variant=nm.split()[0]))
                        break
                w.qs = qs
        sig = "|".join([sc["entry"], str(sc["model"]), ",".join(sorted(ctx.faults)), ",".join(sorted(ctx.probes))])
        aborted = ok_ops == 0
        return ctx.result(sig=sig, extra={"aborted": aborted and not ctx.violations, "notes": ctx.notes[:3]})

    def nontrivial(self, res):
        return res["sim_time"] >= 2 and (res["faults"].get("optional_args", 0) > 0 or res["probes"].get("lazy_default_unset", 0) > 0)

    def shrink(self, sc):
        ops = sc.get("ops", [])
        for j in range(len(ops)):
            if len(ops) > 1:
                c = copy.deepcopy(sc)
                del c["ops"][j]
                yield c
        for j, op in enumerate(ops):
            for k in ("sw", "uw"):
                if k in op:
                    c = copy.deepcopy(sc)
                    del c["ops"][j][k]
                    yield c
            if op.get("cand", "none") != "none":
                c = copy.deepcopy(sc)
                c["ops"][j]["cand"] = "none"
                yield c
            if op.get("prefit"):
                c = copy.deepcopy(sc)
                c["ops"][j]["prefit"] = False
                yield c
        if sc.get("swap_data"):
            c = copy.deepcopy(sc)
            c["swap_data"] = False
            yield c
        yield from shrink_pool(sc)


def _s(x):
    s = repr(x)
    return s if len(s) < 80 else s[:77] + "..."


# --------------------------------------------------------------------------
# C06 -- reproducible for a fixed random_state (twin worlds)
# --------------------------------------------------------------------------


class C06Check(PoolCheckBase):
    prop = "C06"
    rule = (
        "run = one scenario executed in two worlds that differ only in the schedule of a foreign actor on numpy's process-global "
        "generator (re-seeding / drawing before each library call and, through a transparent proxy around the caller's model, during "
        "the call at each fit/predict call-back); pool loops, stream histories and estimator life cycles are the workloads. Every "
        "observable must agree between the worlds, repeated identical pool queries must agree, and fresh twins must agree. "
        "Non-trivial: the actor perturbed the generator at least twice and random tie-breaking or an internal randomised helper could "
        "matter (ties / duplicated points / clustering strategy / random subject). Distinct by (workload kind, subject, actor fault kinds, probe set)."
    )
    fault_kinds = ["global_rng_reseed", "global_rng_draws", "global_rng_draws_during_call"]
    probes_expected = ["global_rng_consumed_by_library", "tie_or_duplicates", "repeat_compared", "twin_compared", "stream_twin", "crowd_twin", "estimator_twin"]
    assumptions = [
        "every estimator supplied by the simulated caller carries an integer seed, so remaining dependence on the global generator originates in library code or in helpers it constructs itself",
        "consumption of the global generator by the library is only a probe steering the search, never a verdict (third-party estimators such as SVR draw an unused seed)",
    ]
    tiers = {"quick": {"runs": 4500, "wall_cap": 600, "chunk": 10}, "thorough": {"runs": 90000, "wall_cap": 3300, "chunk": 25}}

    def generate(self, rng: SimRng):
        g = rng.fork("kind")
        r = g.random()
        if r < 0.62:
            key = pick_entry(rng.fork("entry"))
            sc = gen_pool_scenario(rng, key, "C06", max_n=16)
            sc["workload"] = "pool"
            sc["prefit"] = False
            sc["return_utilities"] = True
            sc["max_cycles"] = g.pick([1, 2, 4])
            sc["cand_mode"] = g.pick(["none", "none", "idx", "rows"]) if R.ENTRIES[key]["flags"].get("rows", True) else g.pick(["none", "idx"])
            sc["force_update"] = g.chance(0.5)
        elif r < 0.70:
            from . import crowdsim as CS

            sc = CS.C07Check().generate(rng.fork("crowd"))
            sc["engine"] = "poolsim"
            sc["mode"] = "C06"
            sc["workload"] = "crowd"
            sc["cycles"] = sc["cycles"][:3]
            if g.chance(0.4):
                sc["seed"] = {"rs": sc["seed"]}
        elif r < 0.87:
            from . import streamsim as S

            c3 = S.C03Check()
            c3.allow_unseeded = False  # a fixed random_state is the premise of the property
            sc = c3.generate(rng.fork("stream"))
            sc["injections"] = []
            sc["engine"] = "poolsim"
            sc["mode"] = "C06"
            sc["workload"] = "stream"
            sc["warmup_update"] = g.chance(0.5)
            if g.chance(0.3) and "random_state" in sc["subject"]["params"]:
                sc["subject"]["params"]["random_state"] = 0  # a seed like any other, but falsy
        else:
            sc = self._gen_estimator(rng.fork("est"))
        f = rng.fork("actor")
        sc["actor_a"] = {"reseed": f.randrange(1, 10**6), "stride": f.pick([0, 1]), "draws": f.pick([0, 0, 3]), "during": f.pick([0, 1, 5])}
        sc["actor_b"] = {"reseed": f.randrange(1, 10**6) if f.chance(0.8) else None, "stride": 1, "draws": f.pick([0, 1, 17]), "during": f.pick([0, 2, 3])}
        return sc

    def _gen_estimator(self, g: SimRng):
        name = g.pick(["pwc", "pwc_g1", "gnb", "lr", "mixture", "rf_ens", "nic", "nwr", "lin", "tree", "dtc_cost", "pwc_cost", "knn_cost", "dtc_cost"])
        task = "reg" if name in ("nic", "nwr", "lin", "tree") else "clf"
        n = g.pick([4, 8, 15])
        X, yt = R.make_pool(g, n, g.pick([1, 2]), task, g.pick(POOL_KINDS) if not name.endswith("_cost") else "duplicates")
        y = [float(v) if g.chance(0.7) else None for v in yt]
        if name.endswith("_cost"):
            # duplicated points that carry both labels: probabilities (and expected costs) tie exactly
            y = [float(i % 2) for i in range(n)]
        return {"engine": "poolsim", "mode": "C06", "workload": "estimator", "model": name, "model_seed": g.randrange(0, 100), "classes": [0, 1], "X": X.tolist(), "y": y, "Xq": np.round(g.np("q").uniform(-2, 2, (g.pick([1, 5]), len(X[0]))), 3).tolist(), "task": task}

    # ---- worlds
    def _pool_world(self, sc, plan, ctx, record, consume_probe=False):
        global _ACTOR
        actor = Actor(plan)
        _ACTOR = actor
        w = PoolWorld(sc, use_chatty=True)
        y = to_y(sc["y0"])
        revealed = 0
        for cyc in range(sc.get("max_cycles", 2)):
            if not np.isnan(y).any():
                break
            actor.before_call(ctx)
            st0 = np.random.get_state()[1].copy() if consume_probe else None
            pos0 = np.random.get_state()[2] if consume_probe else None
            d0 = actor.during
            extra = {}
            unl = np.where(np.isnan(y))[0]
            if sc.get("cand_mode") == "idx":
                extra["candidates"] = unl.copy()
            elif sc.get("cand_mode") == "rows":
                extra["candidates"] = w.X[unl].copy()
            if sc.get("force_update") and "update" in w.params:
                extra["update"] = True  # (ProbCover: recompute the cached radius in every call)
            try:
                res = w.call(y, sc["batch_size"], return_utilities=True, **extra)
            except Exception as ex:
                record.append(("query", cyc, {"exc": type(ex).__name__}))
                return
            if consume_probe and actor.during == d0:
                st1 = np.random.get_state()
                if pos0 != st1[2] or not np.array_equal(st0, st1[1]):
                    ctx.probe("global_rng_consumed_by_library")
            idx, ut = res
            idx = np.asarray(idx).ravel()
            record.append(("query", cyc, (idx, np.asarray(ut, dtype=float))))
            # the same call repeated on the same object
            actor.before_call(ctx)
            try:
                res2 = w.call(y, sc["batch_size"], return_utilities=True, **extra)
                record.append(("repeat", cyc, (np.asarray(res2[0]).ravel(), np.asarray(res2[1], dtype=float))))
            except Exception as ex:
                record.append(("repeat", cyc, {"exc": type(ex).__name__}))
            try:
                ii = idx.astype(int)
                if sc.get("cand_mode") == "rows":
                    ii = unl[ii[(ii >= 0) & (ii < len(unl))]]
                ii = ii[(ii >= 0) & (ii < len(y))]
                y[ii] = oracle_answer(sc, ii, revealed)
                revealed += len(ii)
            except Exception:
                return
            ctx.sim_time += 1
        if actor.during:
            ctx.fault("global_rng_draws_during_call", actor.during)

    def _crowd_world(self, sc, plan, ctx, record):
        from . import crowdsim as CS

        actor = Actor(plan)
        chk = CS.C07Check()
        sc2 = dict(sc, seed=mk_seed(sc["seed"]))
        qs, kw = chk._strategy(sc2)
        X = np.array(sc["X"], dtype=float)
        y = CS.y_matrix(sc["y0"])
        n, na = y.shape
        for t, cyc in enumerate(sc["cycles"]):
            cand_arg, ann_arg, A, rows = chk.availability(cyc, y, n, na)
            if A.sum() == 0:
                continue
            call = dict(kw)
            if cyc["cand"] == "rows":
                call["candidates"] = X[rows].copy()
            elif cand_arg is not None:
                call["candidates"] = cand_arg
            if ann_arg is not None:
                call["annotators"] = ann_arg
            call["batch_size"] = int(cyc["batch_size"])
            call["return_utilities"] = True
            for rep in ("query", "repeat"):
                actor.before_call(ctx)
                try:
                    idx, ut = qs.query(X, y.copy(), **call)
                    record.append((rep, t, (np.asarray(idx), np.asarray(ut, dtype=float))))
                except Exception as ex:
                    record.append((rep, t, {"exc": type(ex).__name__}))
                    idx = None
            if idx is None:
                return
            for p in np.asarray(idx).tolist():
                srow = p[0] if cyc["cand"] != "rows" else int(rows[p[0]])
                if 0 <= srow < n and 0 <= p[1] < na:
                    y[srow, p[1]] = sc["truth"][srow][p[1]]
            ctx.sim_time += 1

    def _stream_world(self, sc, plan, ctx, record):
        from . import streamsim as S

        actor = Actor(plan)
        drv = S.Driver(sc["subject"], sc["clf"], sc["X"], sc["y"])
        pos = 0
        if sc.get("warmup_update") and len(sc["chunks"]) > 1:
            # legal protocol: update may be called before the first query (already observed, unqueried instances)
            c0 = sc["chunks"][0]
            rows = drv.rows(0, c0)
            actor.before_call(ctx)
            try:
                drv.update_rows(rows, [], np.zeros(c0))
            except Exception as ex:
                record.append(("error", -1, {"exc": type(ex).__name__}))
                return
            pos = c0
        for k, c in enumerate(sc["chunks"]):
            if sc.get("warmup_update") and len(sc["chunks"]) > 1 and k == 0:
                continue
            rows = drv.rows(pos, pos + c)
            actor.before_call(ctx)
            try:
                q, u = drv.query_rows(rows, True)
                record.append(("query", k, (list(np.asarray(q).tolist()), u)))
                actor.before_call(ctx)
                drv.update_rows(rows, q, u)
            except Exception as ex:
                record.append(("error", k, {"exc": type(ex).__name__}))
                return
            if not drv.is_manager and drv.clf_peer.kind == "pwc":
                ql = list(np.asarray(q, dtype=int).tolist())
                drv.clf_peer.learn([rows[i] for i in ql], [drv.y[pos + i] for i in ql], pos + c, Ctx("x"))
            pos += c
            ctx.sim_time += c

    def _estimator_world(self, sc, plan, ctx, record):
        actor = Actor(plan)
        m = R.model(sc["model"], classes=sc["classes"], seed=sc["model_seed"])
        X = np.array(sc["X"], dtype=float)
        y = to_y(sc["y"])
        Xq = np.array(sc["Xq"], dtype=float)
        try:
            actor.before_call(ctx)
            m.fit(X, y)
            for meth in ("predict", "predict_proba", "predict_freq", "predict"):
                if hasattr(m, meth):
                    actor.before_call(ctx)
                    record.append((meth, 0, getattr(m, meth)(np.vstack([Xq, X]))))
            if hasattr(m, "sample_y"):
                actor.before_call(ctx)
                record.append(("sample_y", 0, m.sample_y(Xq, 3, random_state=5)))
        except Exception as ex:
            record.append(("error", 0, {"exc": type(ex).__name__}))
        ctx.sim_time += 1

    def execute(self, sc, keep_log=False):
        ctx = Ctx(self.prop, keep_log)
        kind = sc["workload"]
        rec_a, rec_b = [], []
        base = sc.get("run_seed", 0) % (2**32)
        try:
            if kind == "pool":
                subj = R.ENTRIES[sc["entry"]]["cls"]
                cond = {"entry": sc["entry"], "seed_kind": "instance" if isinstance(sc["seed"], dict) else "int"}
                np.random.seed(base)
                self._pool_world(sc, sc["actor_a"], ctx, rec_a, consume_probe=True)
                np.random.seed((base + 1) % (2**32))
                self._pool_world(sc, sc["actor_b"], ctx, rec_b)
                X = np.array(sc["X"])
                if len(np.unique(X, axis=0)) < len(X) or np.isnan(to_y(sc["y0"])).all():
                    ctx.probe("tie_or_duplicates")
                if R.ENTRIES[sc["entry"]]["flags"].get("clusterer"):
                    ctx.probe("internal_clusterer")
            elif kind == "crowd":
                subj = "IntervalEstimationThreshold" if sc["subject"] == "IntervalEstimationThreshold" else "SingleAnnotatorWrapper"
                cond = {"seed_kind": "instance" if isinstance(sc["seed"], dict) else "int"}
                np.random.seed(base)
                self._crowd_world(sc, sc["actor_a"], ctx, rec_a)
                np.random.seed((base + 1) % (2**32))
                self._crowd_world(sc, sc["actor_b"], ctx, rec_b)
                ctx.probe("crowd_twin")
            elif kind == "stream":
                from . import streamsim as S

                subj = S.subject_name(sc["subject"])
                cond = {}
                np.random.seed(base)
                self._stream_world(sc, sc["actor_a"], ctx, rec_a)
                np.random.seed((base + 1) % (2**32))
                self._stream_world(sc, sc["actor_b"], ctx, rec_b)
                ctx.probe("stream_twin")
            else:
                subj = "estimator:" + sc["model"]
                cond = {}
                np.random.seed(base)
                self._estimator_world(sc, sc["actor_a"], ctx, rec_a)
                np.random.seed((base + 1) % (2**32))
                self._estimator_world(sc, sc["actor_b"], ctx, rec_b)
                ctx.probe("estimator_twin")
        except Exception as ex:
            ctx.notes.append(f"world failed: {ex!r}")
            return ctx.result(sig=kind + "|failed", extra={"aborted": True, "notes": ctx.notes})
        for a in rec_a:
            ctx.log.add("A:" + a[0], a[2])
        for b in rec_b:
            ctx.log.add("B:" + b[0], b[2])
        ctx.probe("twin_compared")
        for a, b in zip(rec_a, rec_b):
            if not same(a[2], b[2]):
                ctx.violate(
                    "twin-divergence",
                    subj,
                    f"{a[0]} #{a[1]} differs between two worlds that only differ in the foreign actor's use of numpy's global generator: {_s(_head(a[2]))} vs {_s(_head(b[2]))}",
                    cond,
                )
                break
        else:
            if len(rec_a) != len(rec_b):
                ctx.violate("twin-divergence", subj, f"worlds produced {len(rec_a)} vs {len(rec_b)} observations", cond)
        if kind in ("pool", "crowd") and not ctx.violations:
            for rec in (rec_a,):
                byc = {}
                for op, cyc, val in rec:
                    byc.setdefault(cyc, {})[op] = val
                for cyc, d in byc.items():
                    if "query" in d and "repeat" in d:
                        ctx.probe("repeat_compared")
                        if not same(d["query"], d["repeat"]):
                            ctx.violate("repeat-differs", subj, f"cycle {cyc}: the same query repeated on the same strategy object returned {_s(_head(d['repeat']))} instead of {_s(_head(d['query']))}", cond)
                            break
        sig = "|".join([kind, subj, ",".join(sorted(ctx.faults)), ",".join(sorted(ctx.probes))])
        return ctx.result(sig=sig, extra={"notes": ctx.notes[:3]})

    def nontrivial(self, res):
        f = res["faults"]
        p = res["probes"]
        return sum(f.values()) >= 2 and (p.get("tie_or_duplicates", 0) or p.get("internal_clusterer", 0) or p.get("stream_twin", 0) or p.get("crowd_twin", 0) or p.get("estimator_twin", 0) or p.get("global_rng_consumed_by_library", 0)) > 0

    def shrink(self, sc):
        if sc["workload"] == "pool":
            if sc.get("max_cycles", 1) > 1:
                c = copy.deepcopy(sc)
                c["max_cycles"] = 1
                yield c
            for k in ("actor_a", "actor_b"):
                for f in ("during", "draws"):
                    if sc[k].get(f):
                        c = copy.deepcopy(sc)
                        c[k][f] = 0
                        yield c
            yield from shrink_pool(sc)
        elif sc["workload"] == "crowd":
            from . import crowdsim as CS

            for c in CS.C07Check().shrink(sc):
                yield c
        elif sc["workload"] == "stream":
            from . import streamsim as S

            yield from S.C03Check().shrink_common(sc)
        else:
            n = len(sc["X"])
            for i in range(n - 1, -1, -1):
                if n > 2:
                    c = copy.deepcopy(sc)
                    del c["X"][i]
                    del c["y"][i]
                    yield c


def _head(x):
    if isinstance(x, tuple) and len(x) == 2:
        return np.asarray(x[0]).tolist()
    return x
