"""E2m crowdsim -- multi-annotator pool loop with annotator-availability faults (C07).

Parties: the pool, a crowd of annotators each of which can be off-line or can
fail to answer, the real multi-annotator strategy (SingleAnnotatorWrapper
around a single-annotator strategy, IntervalEstimationThreshold), the driver
that turns the current availability into the ``candidates`` / ``annotators``
arguments in one of the documented representations.

Simulated time = crowd-labelling cycle.  Liveness is judged with a fuel of
line events inside skactiveml (deterministic, replays exactly).
"""
from __future__ import annotations

import copy

import numpy as np

from ..core import Ctx, Fuel, SimFuelExhausted, SimRng
from ..runner import Check
from . import poolreg as R

FUEL = 400_000
# every classification entry of the registry is wrapped (quantifier: "SingleAnnotatorWrapper around every
# single-annotator strategy"); the cheap ones are over-represented
INNER_LIGHT = ["CoreSet", "RandomSampling", "UncertaintySampling:entropy", "UncertaintySampling:margin_sampling", "ProbabilisticAL", "EpistemicUncertaintySampling", "Falcun", "QueryByCommittee:vote_entropy", "QueryByCommittee:KL_divergence", "ContrastiveAL"]
INNER_ALL = [k for k, e in R.ENTRIES.items() if e["task"] == "clf" and not e["flags"].get("wrap") and not e["flags"].get("kernel_X") and not e["flags"].get("fragile")]
# wrapped strategies used when two calls overlap on one object: their own query keeps nothing per call on the object
# besides random_state_ (checked by reading the code), so the per-call contract of the wrapper is well defined
OVERLAP_INNER = ["RandomSampling", "UncertaintySampling:entropy", "UncertaintySampling:margin_sampling", "CoreSet", "ProbabilisticAL", "QueryByCommittee:vote_entropy", "ContrastiveAL", "Falcun"]
INNER = INNER_LIGHT * 3 + [k for k in INNER_ALL if not R.ENTRIES[k]["flags"].get("heavy")] * 2 + INNER_ALL


def _aggregator(name, str_labels=False):
    """Caller-supplied label aggregation (one free parameter, returns one label per sample)."""
    if name is None:
        return None
    if name == "mv3":
        from skactiveml.utils import majority_vote

        if str_labels:
            return lambda y: majority_vote(y, missing_label=None, random_state=3)
        return lambda y: majority_vote(y, random_state=3)

    def first_label(y):
        if str_labels:
            y = np.asarray(y, dtype=object)
            out = np.full(len(y), None, dtype=object)
            for i, row in enumerate(y):
                lab = [v for v in row if v is not None]
                if lab:
                    out[i] = lab[0]
            return out
        y = np.asarray(y, dtype=float)
        out = np.full(len(y), np.nan)
        for i, row in enumerate(y):
            lab = row[~np.isnan(row)]
            if len(lab):
                out[i] = lab[0]
        return out

    return first_label


def enc_matrix(y, str_labels):
    """NaN-coded numeric label matrix -> the caller's coding (class names / None in string-label mode)."""
    if not str_labels:
        return y.copy()
    out = np.full(y.shape, None, dtype=object)
    lab = ~np.isnan(y)
    out[lab] = [R.label_name(v) for v in y[lab]]
    return out


def y_matrix(rows):
    return np.array([[np.nan if v is None else v for v in r] for r in rows], dtype=float)


def _boundaries(f, depth_max, marker="/skactiveml/"):
    """Line counts (as the thread scheduler counts them) at which a statement of the outermost library frames starts."""
    import sys

    pts, cnt, depth = [], [0], [0]

    def local(frame, event, arg):
        if event == "line":
            cnt[0] += 1
            if cnt[0] > FUEL:
                raise SimFuelExhausted("calibration")
            if depth[0] <= depth_max:
                pts.append(cnt[0])
        elif event == "return":
            depth[0] -= 1
        return local

    def glob(frame, event, arg):
        if marker in frame.f_code.co_filename:
            depth[0] += 1
            return local
        return None

    prev = sys.gettrace()
    sys.settrace(glob)
    try:
        f()
    except BaseException:  # noqa: BLE001 - the judged execution reports it
        pass
    finally:
        sys.settrace(prev)
    return pts


class C07Check(Check):
    prop = "C07"
    engine = "crowdsim"
    sim_time_unit = "crowd-labelling cycles"
    components = {
        "real": ["skactiveml.pool.multiannotator.SingleAnnotatorWrapper (around real single-annotator strategies and models)", "skactiveml.pool.multiannotator.IntervalEstimationThreshold", "MultiAnnotatorPoolQueryStrategy argument handling in skactiveml.base"],
        "stub": ["crowd of annotators (scripted labels; off-line / blocked / not answering per schedule)", "thread scheduler for overlapping calls (real threads, one baton, seeded pre-emption at line events inside skactiveml)"],
    }
    rule = (
        "run = one strategy object driven through several crowd-labelling cycles on a label matrix that fills up; per cycle the scheduler "
        "draws which annotators are off-line, which pairs are blocked, whether a queried annotator answers, how availability and candidates "
        "are expressed (None / index array / boolean matrix / feature rows), the batch size and the annotators-per-sample request. Oracle per "
        "call: returns within fuel, (k, 2) distinct available pairs with k = min(batch_size, available pairs), utilities of the documented "
        "shape that are NaN at unavailable and already chosen pairs, annotators-per-sample respected in its weakest unambiguous form. "
        "In a share of the runs a second caller thread is inside query on the same strategy object with different arguments while the first "
        "one is pre-empted at seeded line counts; each of the two calls is judged by the same oracle against its own arguments. "
        "Non-trivial: at least one availability fault landed and some sample had fewer available annotators than requested or a row "
        "without any available annotator existed. Distinct by (subject, argument representation, fault kinds, probes)."
    )
    fault_kinds = ["annotator_offline", "pair_unavailable", "no_answer", "thread_preemption"]
    probes_expected = ["row_without_available_annotator", "fewer_annotators_than_requested", "batch_clipped", "repr_none_none", "repr_none_idx", "repr_none_bool", "repr_idx_bool", "repr_rows", "multi_cycle", "utilities_checked", "napa_array", "napa_array_shorter_than_batch", "mask_not_bool_dtype", "labeled_sample_still_candidate", "string_class_labels", "overlapping_calls", "lockstep_interleaving"]
    assumptions = [
        "availability is what the candidates/annotators arguments say (documented table); with both None: pairs whose label is missing",
        "termination is judged with a deterministic fuel of %d line events inside skactiveml per query" % FUEL,
        "overlapping calls on one object are only generated for wrapped strategies whose own query keeps no per-call state on the object (list OVERLAP_INNER); they are judged per call, never against a sequential result",
        "the annotators-per-sample clause (integer or per-rank array request) is only judged where the selected samples offer enough pairs at the requested numbers, i.e. where the library does not have to raise the numbers to fill the batch",
    ]
    tiers = {"quick": {"runs": 4000, "wall_cap": 600, "chunk": 15}, "thorough": {"runs": 80000, "wall_cap": 3300, "chunk": 30}}

    @staticmethod
    def _gen_cycle(g, f, n, na, subject):
        offline = [a for a in range(na) if f.chance(f.pick([0.0, 0.2, 0.5]))]
        blocked = [[i, a] for i in range(n) for a in range(na) if f.chance(f.pick([0.0, 0.1, 0.4]))]
        cand = g.pick(["none", "none", "idx", "rows"])
        if cand == "rows" and subject.startswith("SAW:") and R.ENTRIES[subject[4:]]["flags"].get("rows") is False:
            cand = "idx"  # strategies that need the position of the candidates in X refuse feature rows by documentation
        avail = g.pick(["none", "idx", "bool", "bool"])
        cyc = {
            "offline": offline,
            "blocked": blocked,
            "cand": cand,
            "avail": avail,
            "cand_idx": sorted(g.sample(range(n), g.randint(1, n))) if cand != "none" else None,
            "batch_size": g.pick([1, 1, 2, 3, n, n * na + 2]),
            "napa": g.pick([1, 1, 2, 3]) if g.chance(0.8) else [g.pick([1, 2, 3]) for _ in range(g.pick([1, 2, 3]))],
            "no_answer": [f.chance(0.15) for _ in range(12)],
            "ru": g.chance(0.7),
            # annotator performance estimates handed to the wrapper (any real numbers, also negative ones)
            "A_perf": ([round(g.uniform(-3, 3), 2) for _ in range(na)] if g.chance(0.5) else [[round(g.uniform(-3, 3), 2) for _ in range(na)] for _ in range(n)]) if g.chance(0.3) else None,
            # an index array of annotators may legally repeat an index
            "dup_annot_idx": g.chance(0.2),
            "mask_dtype": g.pick(["bool", "bool", "int", "float"]),
        }
        return cyc

    def generate(self, rng: SimRng):
        g = rng.fork("workload")
        f = rng.fork("faults")
        nr = g.np("data")
        n = g.pick([3, 4, 5, 6, 8, 10])
        na = g.pick([1, 2, 3, 4, 5])
        d = g.pick([1, 2])
        lab = nr.randint(0, 2, n)
        X = np.round(lab[:, None] * 2.0 + nr.normal(0, 0.8, (n, d)), 3)
        truth = [[float(lab[i]) if nr.random_sample() < 0.8 else float(1 - lab[i]) for _ in range(na)] for i in range(n)]
        p_init = g.pick([0.0, 0.2, 0.5])
        y0 = [[truth[i][a] if nr.random_sample() < p_init else None for a in range(na)] for i in range(n)]
        subject = "IntervalEstimationThreshold" if g.chance(0.15) else "SAW:" + g.pick(INNER)
        cycles = []
        for _ in range(g.pick([1, 2, 3, 5, 8])):
            cycles.append(self._gen_cycle(g, f, n, na, subject))
        # two caller threads inside query on the same strategy object (the pre-emption points are task-local line counts)
        o = rng.fork("overlap")
        if subject.startswith("SAW:") and subject[4:] in OVERLAP_INNER and o.chance(0.8):
            j = o.randrange(0, len(cycles))
            other = self._gen_cycle(o, o, n, na, subject)
            if o.chance(0.5):
                # the same request for another availability scenario (same shapes: shared scratch buffers would collide)
                other = dict(copy.deepcopy(cycles[j]), offline=other["offline"], blocked=other["blocked"])
                other.pop("overlap", None)
            # the second caller may hold a label matrix of its own (same shape, more labels)
            other["y_reveal"] = [[i, a] for i in range(n) for a in range(na) if o.chance(0.3)] if o.chance(0.5) else []
            cycles[j]["overlap"] = {
                "cyc": other,
                "first": o.pick([0, 1]),
                "plan": o.pick(["random", "lockstep1", "lockstep2", "lockstep2"]),
                "switches": {str(r): sorted({int(round(10 ** o.uniform(0.3, 4.5))) for _ in range(o.pick([0, 1, 2, 4, 8, 16, 16]))}) for r in (0, 1)},
            }
        return {"engine": "crowdsim", "subject": subject, "model": "pwc", "seed": g.randrange(0, 1000), "X": X.tolist(), "y0": y0, "truth": truth, "cycles": cycles, "str_labels": rng.fork("str").chance(0.15), "y_aggregate": g.pick([None, None, "mv3", "first"]), "iet": g.pick([None, None, {"epsilon": 0.5, "alpha": 0.5}, {"epsilon": 1.0, "alpha": 0.01}, {"epsilon": 0.0, "alpha": 0.2}])}

    # ------------------------------------------------------------------
    def _strategy(self, sc):
        from skactiveml.pool.multiannotator import IntervalEstimationThreshold, SingleAnnotatorWrapper

        if sc["subject"] == "IntervalEstimationThreshold":
            from skactiveml.classifier.multiannotator import AnnotatorLogisticRegression

            st = bool(sc.get("str_labels"))
            extra = {"missing_label": None} if st else {}
            clf = AnnotatorLogisticRegression(classes=[R.label_name(0), R.label_name(1)] if st else [0, 1], random_state=0, max_iter=10, **extra)
            return IntervalEstimationThreshold(random_state=sc["seed"], **(sc.get("iet") or {}), **extra), {"clf": clf}
        key = sc["subject"].split(":", 1)[1]
        st = bool(sc.get("str_labels"))
        overrides = {"classes": [R.label_name(0), R.label_name(1)], "missing_label": None} if st else None
        inner = R.build_strategy(key, sc["seed"], overrides=overrides)
        arg, _ = R.model_arg(key)
        kw = {}
        if arg:
            kw[arg] = R.model(R.ENTRIES[key]["models"][0], classes=[0, 1], seed=0, str_labels=st)
        return SingleAnnotatorWrapper(inner, y_aggregate=_aggregator(sc.get("y_aggregate"), st), random_state=sc["seed"], **({"missing_label": None} if st else {})), kw

    @staticmethod
    def availability(cyc, y, n, na):
        """Arguments for the library and the set of available pairs under their documented meaning.

        Returns (candidates_arg, annotators_arg, avail (n_rows x na bool), row_to_sample (or None when indices refer to candidate rows))."""
        unl = np.isnan(y)
        online = np.ones(na, dtype=bool)
        online[cyc["offline"]] = False
        reach = np.tile(online, (n, 1))
        for i, a in cyc["blocked"]:
            reach[i, a] = False
        cand, avail = cyc["cand"], cyc["avail"]
        if cand == "none":
            rows = np.arange(n)
            cand_arg = None
        else:
            rows = np.array(cyc["cand_idx"], dtype=int)
            cand_arg = rows.copy()
        if avail == "none":
            ann_arg = None
            if cand == "none":
                A = unl.copy()  # documented: pairs whose label is missing
            else:
                A = np.ones((len(rows), na), dtype=bool)
        elif avail == "idx":
            on = np.where(online)[0]
            if len(on) == 0:
                on = np.array([0])
            ann_arg = on.copy()
            if cyc.get("dup_annot_idx"):
                ann_arg = np.concatenate([on[-1:], on])
            A = np.zeros((len(rows), na), dtype=bool)
            A[:, on] = True
        else:
            A = (unl & reach)[rows]
            ann_arg = A.copy()
        return cand_arg, ann_arg, A, rows

    def execute(self, sc, keep_log=False):
        ctx = Ctx(self.prop, keep_log)
        subj = "IntervalEstimationThreshold" if sc["subject"] == "IntervalEstimationThreshold" else "SingleAnnotatorWrapper"
        try:
            qs, kw = self._strategy(sc)
        except Exception as e:
            return ctx.result(sig=subj + "|ctor", extra={"aborted": True, "notes": [repr(e)]})
        X = np.array(sc["X"], dtype=float)
        y = y_main = y_matrix(sc["y0"])
        n, na = y.shape
        np.random.seed(sc.get("run_seed", 0) % (2**32))
        done_cycles = 0
        def prep(cyc, y=None):
            y = y_main if y is None else y
            cand_arg, ann_arg, A, rows = self.availability(cyc, y, n, na)
            if cyc["avail"] == "bool" and cyc.get("mask_dtype", "bool") != "bool" and ann_arg is not None:
                # the availability mask as 0/1 integers or floats (array-like of truth values)
                ann_arg = np.asarray(ann_arg).astype(np.int64 if cyc["mask_dtype"] == "int" else float)
                ctx.probe("mask_not_bool_dtype")
            rep = f"{cyc['cand']}_{cyc['avail']}"
            ctx.probe("repr_rows" if cyc["cand"] == "rows" else "repr_" + rep)
            if cyc["offline"]:
                ctx.fault("annotator_offline", len(cyc["offline"]))
            if cyc["blocked"] and cyc["avail"] == "bool":
                ctx.fault("pair_unavailable", len(cyc["blocked"]))
            n_avail = int(A.sum())
            if n_avail == 0:
                return None  # nothing to query: the library documents no behaviour for an empty candidate set
            if (A.sum(axis=1) == 0).any():
                ctx.probe("row_without_available_annotator")
            napa = cyc["napa"]
            if isinstance(napa, int) and (A.sum(axis=1)[A.sum(axis=1) > 0] < napa).any():
                ctx.probe("fewer_annotators_than_requested")
            bs = int(cyc["batch_size"])
            want = min(bs, n_avail)
            if bs > n_avail:
                ctx.probe("batch_clipped")
            cond = {"cand": cyc["cand"], "avail": cyc["avail"], "subject": sc["subject"].split(":")[0]}
            if sc.get("str_labels"):
                cond["str_labels"] = True
                ctx.probe("string_class_labels")
            if ":" in sc["subject"]:
                cond["inner"] = sc["subject"].split(":", 1)[1].split(":")[0]
                # a sample already labeled by one annotator that is still offered to the others: the wrapped
                # strategy sees a *labeled* candidate
                sel_rows = np.asarray(rows)[A.sum(axis=1) > 0]
                if cyc["cand"] != "rows" and len(sel_rows) and (~np.isnan(y[sel_rows])).any():
                    cond["labeled_candidates"] = True
                    ctx.probe("labeled_sample_still_candidate")
            call = dict(kw)
            if cyc["cand"] == "rows":
                call["candidates"] = X[rows].copy()
            elif cand_arg is not None:
                call["candidates"] = cand_arg
            if ann_arg is not None:
                call["annotators"] = ann_arg
            if subj == "SingleAnnotatorWrapper":
                call["n_annotators_per_sample"] = napa if isinstance(napa, int) else np.array(napa)
                if cyc.get("A_perf") is not None:
                    ap = np.array(cyc["A_perf"], dtype=float)
                    if ap.ndim == 2:
                        ap = ap[rows] if cyc["cand"] != "none" else ap
                    call["A_perf"] = ap
            call["batch_size"] = bs
            want_ut = bool(cyc.get("ru", True))
            call["return_utilities"] = want_ut
            return dict(A=A, rows=rows, cond=cond, bs=bs, n_avail=n_avail, rep=rep, want=want, napa=napa, want_ut=want_ut, call=call)

        def judge(t, cyc, P, outcome, tag=""):
            """The per-call oracle; returns the list of pairs or None after a violation."""
            A, rows, cond, bs, n_avail, rep, want, napa, want_ut = (P[k] for k in ("A", "rows", "cond", "bs", "n_avail", "rep", "want", "napa", "want_ut"))
            if tag:
                cond = dict(cond, overlapping_calls=True)
            kind, val = outcome
            if kind == "fuel":
                ctx.violate("query-does-not-terminate", subj, f"cycle {t}{tag}: query used more than {FUEL} line events (batch {bs}, {n_avail} available pairs, availability rows {A.sum(axis=1).tolist()}, representation {rep})", cond)
                return None
            if kind == "exc":
                e = val
                ctx.violate("query-raises", subj, f"cycle {t}{tag}: {type(e).__name__}: {str(e)[:140]} (representation candidates={cyc['cand']}, annotators={cyc['avail']}, batch {bs}, {n_avail} available pairs)", dict(cond, exc=type(e).__name__))
                return None
            idx, ut = val if want_ut else (val, None)
            idx = np.asarray(idx)
            ctx.log.add("query", idx)
            if idx.ndim != 2 or idx.shape[1] != 2 or idx.dtype.kind not in "iu":
                ctx.violate("result-malformed", subj, f"cycle {t}{tag}: result of shape {idx.shape} dtype {idx.dtype}, (k, 2) integers expected", cond)
                return None
            # indices refer to X (None / index candidates) or to the candidate rows
            row_of = {int(s): r for r, s in enumerate(rows)} if cyc["cand"] != "rows" else {r: r for r in range(len(rows))}
            pairs = [(int(i), int(a)) for i, a in idx.tolist()]
            if len(set(pairs)) != len(pairs):
                ctx.violate("duplicate-pair", subj, f"cycle {t}{tag}: pairs {pairs} contain a pair twice", cond)
                return None
            bad = [p for p in pairs if p[0] not in row_of or not (0 <= p[1] < na) or not A[row_of[p[0]], p[1]]]
            if bad:
                ctx.violate("unavailable-pair-selected", subj, f"cycle {t}{tag}: pairs {bad} are not available under candidates={cyc['cand']}, annotators={cyc['avail']} (available per row {A.sum(axis=1).tolist()})", cond)
                return None
            n_rows_u0 = len(rows) if cyc["cand"] == "rows" else n
            if ut is not None and np.asarray(ut).shape[1:] != (n_rows_u0, na):
                ctx.violate("utilities-shape", subj, f"cycle {t}{tag}: utilities of shape {np.asarray(ut).shape}, expected (k, {n_rows_u0}, {na})", cond)
                return None
            if len(pairs) != want:
                ctx.violate("wrong-count", subj, f"cycle {t}{tag}: {len(pairs)} pairs returned, min(batch_size={bs}, available pairs={n_avail})={want} expected (available per row {A.sum(axis=1).tolist()})", cond)
                return None
            # ---- utilities
            if ut is None:
                ut = np.full((len(pairs), len(rows) if cyc["cand"] == "rows" else n, na), 0.0)
                skip_ut = True
            else:
                skip_ut = False
            ut = np.asarray(ut, dtype=float)
            n_rows_u = len(rows) if cyc["cand"] == "rows" else n
            ctx.probe("utilities_checked")
            if ut.shape != (len(pairs), n_rows_u, na):
                ctx.violate("utilities-shape", subj, f"cycle {t}{tag}: utilities of shape {ut.shape}, expected {(len(pairs), n_rows_u, na)}", cond)
                return None
            full = np.zeros((n_rows_u, na), dtype=bool)
            if cyc["cand"] == "rows":
                full[:, :] = A
            else:
                full[rows] = A
            chosen = []
            ok = True
            for k, p in enumerate([] if skip_ut else pairs):
                mustnan = ~full
                if mustnan.any() and not np.isnan(ut[k][mustnan]).all():
                    ctx.violate("utilities-not-nan-at-unavailable", subj, f"cycle {t}{tag}: step {k}: utilities are numbers at unavailable pairs", cond)
                    ok = False
                    break
                for q in chosen:
                    if not np.isnan(ut[k][q[0], q[1]]):
                        ctx.violate("utilities-not-nan-at-chosen", subj, f"cycle {t}{tag}: step {k}: utility of the pair {q} chosen earlier is {ut[k][q[0], q[1]]}", cond)
                        ok = False
                        break
                if not ok:
                    break
                if np.isnan(ut[k][p[0], p[1]]):
                    ctx.violate("utilities-nan-at-selected", subj, f"cycle {t}{tag}: step {k}: the selected pair {p} has NaN utility", cond)
                    ok = False
                    break
                chosen.append(p)
            if not ok:
                return None
            # ---- annotators per sample (weakest unambiguous form)
            if subj == "SingleAnnotatorWrapper":
                # documented: an array gives the preferred number for the i-th sample of the inner strategy's ranking,
                # its last entry for every later sample.  The pairs come in ranking order.
                order = []
                for p in pairs:
                    if p[0] not in order:
                        order.append(p[0])
                pref = {s: (napa if isinstance(napa, int) else int(napa[min(i, len(napa) - 1)])) for i, s in enumerate(order)}
                if not isinstance(napa, int):
                    ctx.probe("napa_array_shorter_than_batch" if len(napa) < len(order) else "napa_array")
                cap = {s: int(A[row_of[s]].sum()) for s in order}
                if sum(min(pref[s], cap[s]) for s in order) >= len(pairs):
                    for s in order[:-1]:
                        got = sum(1 for p in pairs if p[0] == s)
                        if got != min(pref[s], cap[s]):
                            ctx.violate("annotators-per-sample", subj, f"cycle {t}{tag}: sample {s} received {got} annotators, min(requested={pref[s]}, available={cap[s]}) expected (n_annotators_per_sample={napa}); pairs {pairs}", cond)
                            ok = False
                            break
            if not ok:
                return None
            return pairs

        def run_call(call, yenc):
            try:
                with Fuel(FUEL):
                    return ("ok", qs.query(X, yenc, **call))
            except SimFuelExhausted:
                return ("fuel", None)
            except Exception as e:
                return ("exc", e)

        def run_overlapping(calls, yencs, ov):
            from .parsim import SIM, ThreadSched

            SIM.ctx, SIM.trace, SIM.steps = ctx, [], 0
            funcs = [(lambda c=c, ye=ye: qs.query(X, ye, **c)) for c, ye in zip(calls, yencs)]
            order = [0, 1] if ov.get("first", 0) == 0 else [1, 0]
            switches = ov.get("switches") or {}
            plan = ov.get("plan", "random")
            if plan.startswith("lockstep"):
                # both callers yield at every statement boundary of the outermost (lockstep1) or the two outermost
                # (lockstep2) library frames: A1 B1 A2 B2 ...  The boundaries are the line counts of a sequential
                # run of the same call on a copy of the object.
                depth_max = int(plan[-1])
                switches = {}
                for i, (c, ye) in enumerate(zip(calls, yencs)):
                    twin = copy.deepcopy(qs)
                    switches[str(order.index(i))] = _boundaries(lambda: twin.query(X, ye, **copy.deepcopy(c)), depth_max)
                ctx.probe("lockstep_interleaving")
            sched = ThreadSched(funcs, order, switches, fuel=FUEL)
            try:
                res = sched.run()
            finally:
                SIM.ctx = None
            ctx.log.add("interleaving", [list(x) for x in SIM.trace])
            outs = []
            for i in range(len(calls)):
                kind, val = res.get(i, ("err", RuntimeError("no result")))
                if kind == "ok":
                    outs.append(("ok", val))
                elif isinstance(val, SimFuelExhausted):
                    outs.append(("fuel", None))
                else:
                    outs.append(("exc", val))
            return outs

        for t, cyc in enumerate(sc["cycles"]):
            P = prep(cyc)
            if P is None:
                continue
            ov = cyc.get("overlap") if subj == "SingleAnnotatorWrapper" else None
            y2 = None
            if ov:
                y2 = y.copy()
                for i, a in ov["cyc"].get("y_reveal") or []:
                    if i < n and a < na:
                        y2[i, a] = sc["truth"][i][a]
            P2 = prep(ov["cyc"], y2) if ov else None
            yenc = enc_matrix(y, bool(sc.get("str_labels")))
            if P2 is None:
                outcome = run_call(P["call"], yenc)
                pairs = judge(t, cyc, P, outcome)
            else:
                # two caller threads share the strategy object; the scheduler decides who runs (seeded pre-emption
                # at task-local line counts); every call is judged against its OWN arguments
                ctx.probe("overlapping_calls")
                outs = run_overlapping([P["call"], P2["call"]], [yenc, enc_matrix(y2, bool(sc.get("str_labels")))], ov)
                pairs = judge(t, cyc, P, outs[0], " (overlapping call 0)")
                if pairs is not None and judge(t, ov["cyc"], P2, outs[1], " (overlapping call 1)") is None:
                    pairs = None
            if pairs is None:
                break
            rows = P["rows"]
            # ---- the crowd answers (or not)
            for k, p in enumerate(pairs):
                s = p[0] if cyc["cand"] != "rows" else int(rows[p[0]])
                if cyc["no_answer"][k % len(cyc["no_answer"])]:
                    ctx.fault("no_answer")
                    continue
                y[s, p[1]] = sc["truth"][s][p[1]]
            done_cycles += 1
            ctx.sim_time += 1
        if done_cycles >= 2:
            ctx.probe("multi_cycle")
        sig = "|".join([sc["subject"], ",".join(sorted(ctx.probes)), ",".join(sorted(ctx.faults))])
        return ctx.result(sig=sig, extra={"aborted": False})

    def nontrivial(self, res):
        p = res["probes"]
        return bool(res["faults"]) and (p.get("row_without_available_annotator", 0) + p.get("fewer_annotators_than_requested", 0)) > 0

    def shrink(self, sc):
        cyc = sc["cycles"]
        for j, cy in enumerate(cyc):
            ov = cy.get("overlap")
            if not ov:
                continue
            c = copy.deepcopy(sc)
            del c["cycles"][j]["overlap"]
            yield c
            c = copy.deepcopy(sc)  # the overlapping call alone, sequentially
            c["cycles"] = [ov["cyc"]]
            yield c
            if ov.get("plan", "random") != "random":
                c = copy.deepcopy(sc)
                c["cycles"][j]["overlap"]["plan"] = "random"
                yield c
            for r, pts in ov["switches"].items():
                for k in range(len(pts)):
                    c = copy.deepcopy(sc)
                    del c["cycles"][j]["overlap"]["switches"][r][k]
                    yield c
            if len(cyc) > 1:
                c = copy.deepcopy(sc)
                c["cycles"] = [cy]
                yield c
        for keep in (len(cyc) // 2, len(cyc) - 1):
            if 1 <= keep < len(cyc):
                c = copy.deepcopy(sc)
                c["cycles"] = cyc[:keep]
                yield c
        for j in range(len(cyc)):
            if len(cyc) > 1:
                c = copy.deepcopy(sc)
                del c["cycles"][j]
                yield c
        n = len(sc["X"])
        has_ov = any(cy.get("overlap") for cy in cyc)  # (the nested call's index sets are not re-numbered: keep the pool)
        for i in range(n - 1, -1, -1):
            if n > 2 and not has_ov:
                c = copy.deepcopy(sc)
                for k in ("X", "y0", "truth"):
                    del c[k][i]
                for cy in c["cycles"]:
                    cy["blocked"] = [[a if a < i else a - 1, b] for a, b in cy["blocked"] if a != i]
                    if cy["cand_idx"] is not None:
                        cy["cand_idx"] = [a if a < i else a - 1 for a in cy["cand_idx"] if a != i] or [0]
                    ap = cy.get("A_perf")
                    if ap is not None and ap and isinstance(ap[0], list):
                        del ap[i]  # one row of estimates per sample
                yield c
        na = len(sc["y0"][0])
        if na > 1 and not has_ov:
            c = copy.deepcopy(sc)
            for k in ("y0", "truth"):
                c[k] = [r[:-1] for r in c[k]]
            for cy in c["cycles"]:
                cy["blocked"] = [[a, b] for a, b in cy["blocked"] if b < na - 1]
                cy["offline"] = [a for a in cy["offline"] if a < na - 1]
                ap = cy.get("A_perf")
                if ap is not None:
                    cy["A_perf"] = [r[:-1] for r in ap] if isinstance(ap[0], list) else ap[:-1]
            yield c
        for j, cy in enumerate(cyc):
            for key, simple in (("batch_size", 1), ("batch_size", 2), ("napa", 1), ("offline", []), ("blocked", [])):
                if cy[key] != simple:
                    c = copy.deepcopy(sc)
                    c["cycles"][j][key] = simple
                    yield c
            if cy.get("A_perf") is not None:
                c = copy.deepcopy(sc)
                c["cycles"][j]["A_perf"] = None
                yield c
            if cy["cand"] != "none":
                c = copy.deepcopy(sc)
                c["cycles"][j]["cand"] = "none"
                c["cycles"][j]["cand_idx"] = None
                yield c
        for i in range(n):
            for a in range(na):
                if sc["y0"][i][a] is not None:
                    c = copy.deepcopy(sc)
                    c["y0"][i][a] = None
                    yield c
                    break
