"""E3b idxsim -- IndexClassifierWrapper vs. a multiset reference model (C19).

Reference model: two multisets of (index, label, weight) triples (current and
base) -- for wrapped classifiers with a native ``partial_fit`` the ordered log
of fit / partial_fit calls -- updated by the documented semantics of each
operation.  After every operation the wrapper must predict like a *fresh clone
of the wrapped classifier* trained on the implied data; documented refusals are
part of the model.  The speed-up clause is a twin: the same sequence with
``use_speed_up`` on and off must predict alike.

Simulated time = operation index.
"""
from __future__ import annotations

import copy

import numpy as np

from ..core import Ctx, SimRng, close
from ..runner import Check

WRAPPED = ["pwc", "pwc_nn", "pwc_prior", "gnb", "lr", "sgdc"]
NATIVE_PF = {"gnb", "sgdc"}


def label_name(c):
    return f"c{int(c):02d}"


def enc_labels(y, sc):
    """NaN-coded numeric labels -> what the caller hands over (class names / None in string-label mode)."""
    y = np.asarray(y, dtype=float)
    if not sc.get("str_labels"):
        return y
    out = np.full(y.shape, None, dtype=object)
    lab = ~np.isnan(y)
    out[lab] = [label_name(v) for v in y[lab]]
    return out


def make_clf(name, classes, seed, str_labels=False):
    clf = _make_clf(name, classes, seed)
    if str_labels:
        clf.set_params(classes=[label_name(c) for c in classes], missing_label=None)
    return clf


def _make_clf(name, classes, seed):
    from sklearn.linear_model import LogisticRegression, SGDClassifier
    from sklearn.naive_bayes import GaussianNB

    from skactiveml.classifier import ParzenWindowClassifier, SklearnClassifier

    if name == "pwc":
        return ParzenWindowClassifier(classes=classes, random_state=seed, metric_dict={"gamma": 0.7})
    if name == "pwc_prior":
        return ParzenWindowClassifier(classes=classes, random_state=seed, class_prior=0.5, metric_dict={"gamma": 0.7})
    if name == "pwc_nn":
        return ParzenWindowClassifier(classes=classes, random_state=seed, n_neighbors=2, metric_dict={"gamma": 0.7})
    if name == "gnb":
        return SklearnClassifier(GaussianNB(), classes=classes, random_state=seed)
    if name == "lr":
        return SklearnClassifier(LogisticRegression(random_state=seed), classes=classes, random_state=seed)
    if name == "sgdc":
        return SklearnClassifier(SGDClassifier(loss="log_loss", random_state=seed, max_iter=30, tol=None, shuffle=False), classes=classes, random_state=seed)
    raise KeyError(name)


class Refusal(Exception):
    pass


def neighbour_ties(sc, train_idx, query_idx, k=2, gamma=0.7):
    """Rows of the query whose k-th and (k+1)-th nearest training samples are (nearly) equally similar.

    With n_neighbors the Parzen window classifier keeps the k most similar training samples; when the boundary
    is tied, which of them is kept depends on the last bits of the kernel values (a pre-computed kernel block
    and a freshly computed one differ there) -- such rows cannot be judged."""
    if sc["clf"] != "pwc_nn" or len(train_idx) <= k:
        return np.zeros(len(query_idx), dtype=bool)
    X = np.array(sc["X"], dtype=float)
    d2 = ((X[query_idx][:, None, :] - X[train_idx][None, :, :]) ** 2).sum(axis=2)
    K = np.sort(np.exp(-gamma * d2), axis=1)[:, ::-1]
    return np.abs(K[:, k - 1] - K[:, k]) <= 1e-9 * np.maximum(1.0, np.abs(K[:, k - 1]))


class RefModel:
    """Specified behaviour of IndexClassifierWrapper (no kernel tricks, no index bookkeeping)."""

    def __init__(self, sc):
        self.sc = sc
        self.X = np.array(sc["X"], dtype=float)
        self.y = np.array([np.nan if v is None else v for v in sc["y"]], dtype=float)
        self.w = None if sc.get("w") is None else np.array(sc["w"], dtype=float)
        self.native = sc["clf"] in NATIVE_PF and not sc["flags"]["ignore_partial_fit"]
        self.unique = sc["flags"]["enforce_unique_samples"]
        self.cur = None  # list of log entries [("fit"|"pf"|"prefit", triples)]
        self.base = None
        self.prefit_unknown = False  # emulated partial_fit impossible: fitted outside the wrapper

    def _clf(self):
        return make_clf(self.sc["clf"], self.sc["classes"], self.sc["clf_seed"], self.sc.get("str_labels"))

    def init(self):
        pre = self.sc.get("prefit")
        if pre is not None:
            self.cur = [("prefit", self._triples(pre["idx"], None, None))]
            self.prefit_unknown = True
            if self.sc.get("init_set_base"):
                self.base = copy.deepcopy(self.cur)
        elif self.sc.get("init_set_base"):
            raise Refusal("set_base_clf=True with an unfitted classifier")

    def _triples(self, idx, y, w):
        idx = [int(i) for i in idx]
        if self.unique and len(set(idx)) < len(idx):
            raise Refusal("duplicate indices with enforce_unique_samples")
        if any(i < 0 or i >= len(self.X) for i in idx):
            raise Refusal("index out of range")
        yy = [self.y[i] for i in idx] if y is None else [np.nan if v is None else float(v) for v in y]
        if w is None:
            ww = None if self.w is None else [float(self.w[i]) for i in idx]
        else:
            ww = [float(v) for v in w]
        return {"idx": idx, "y": yy, "w": ww}

    def fit(self, op):
        t = self._triples(op["idx"], op.get("y"), op.get("w"))
        self.cur = [("fit", t)]
        self.prefit_unknown = False
        if op.get("set_base"):
            self.base = copy.deepcopy(self.cur)
            self.base_unknown = False

    def partial_fit(self, op):
        add = self._triples(op["idx"], op.get("y"), op.get("w"))
        use_base = bool(op.get("use_base"))
        if use_base and self.base is None:
            raise Refusal("base classifier not set")
        if not use_base and self.cur is None:
            raise Refusal("classifier not fitted")
        if self.native:
            src = copy.deepcopy(self.base if use_base else self.cur)
            src.append(("pf", add))
            self.cur = src
        else:
            if self.prefit_unknown:
                raise Refusal("fitted outside the wrapper: emulated partial_fit impossible")
            src = copy.deepcopy(self.base if use_base else self.cur)
            if src[0][0] == "prefit":
                raise Refusal("base of unknown provenance")
            t = src[0][1]
            keep = [k for k in range(len(t["idx"])) if not (self.unique and t["idx"][k] in add["idx"])]
            if (t["w"] is None) != (add["w"] is None):
                raise Refusal("sample weights must be all given or all None")
            merged = {
                "idx": [t["idx"][k] for k in keep] + add["idx"],
                "y": [t["y"][k] for k in keep] + add["y"],
                "w": None if t["w"] is None else [t["w"][k] for k in keep] + add["w"],
            }
            if self.unique and len(set(merged["idx"])) < len(merged["idx"]):
                raise Refusal("duplicate indices with enforce_unique_samples")
            self.cur = [("fit", merged)]
        if op.get("set_base"):
            self.base = copy.deepcopy(self.cur)

    def reference_clf(self):
        """A fresh clone of the wrapped classifier trained on the implied data."""
        if self.cur is None:
            raise Refusal("not fitted")
        clf = self._clf()
        for kind, t in self.cur:
            Xt = self.X[t["idx"]]
            yt = enc_labels(np.array(t["y"], dtype=float), self.sc)
            wt = None if t["w"] is None else np.array(t["w"], dtype=float)
            if kind in ("fit", "prefit"):
                clf.fit(Xt, yt, sample_weight=wt) if wt is not None else clf.fit(Xt, yt)
            else:
                clf.partial_fit(Xt, yt, sample_weight=wt) if wt is not None else clf.partial_fit(Xt, yt)
        return clf


class C19Check(Check):
    prop = "C19"
    engine = "idxsim"
    sim_time_unit = "operations on one IndexClassifierWrapper"
    components = {
        "real": ["skactiveml.pool.utils.IndexClassifierWrapper", "ParzenWindowClassifier / SklearnClassifier(GaussianNB, LogisticRegression, SGDClassifier) as wrapped classifiers"],
        "stub": ["reference model: multisets of (index, label, weight) triples + a fresh clone of the wrapped classifier retrained from scratch"],
    }
    rule = (
        "run = one operation sequence (construction with un-/pre-fitted classifier, precompute, fit, partial_fit from the current or "
        "the base model, base-model updates, predictions) on IndexClassifierWrapper under one flag combination (use_speed_up, "
        "enforce_unique_samples, ignore_partial_fit), lock-stepped with the multiset reference model; with a Parzen window classifier "
        "the same sequence is also executed with the speed-up toggled (twin). Non-trivial: at least one partial_fit from the base model "
        "after the base was set and the current model had moved on, or an emulated partial_fit with label/weight overrides or repeated "
        "indices. Distinct by (wrapped classifier, flags, op-kind multiset, probes)."
    )
    fault_kinds = ["repeated_indices", "label_override", "weight_override", "base_restart", "documented_refusal"]
    probes_expected = ["partial_fit_from_base_after_divergence", "emulated_partial_fit", "native_partial_fit", "speedup_twin_compared", "prediction_compared", "refusal_predicted", "unique_replaced_sample", "partial_precompute", "refused_missing_kernel_entries", "speed_up_with_prefitted_clf", "string_class_labels"]
    assumptions = [
        "probabilities are compared to 1e-9 relative (a pre-computed kernel block and a freshly computed one may differ in the last bits); hard predictions only where the top-two margin exceeds that tolerance",
        "exception types of refusals are not judged, only that the wrapper refuses exactly when the model does",
        "with use_speed_up, predictions that need kernel entries the caller never announced through precompute are refused by documentation (ValueError); they are judged whenever the announced entries suffice",
    ]
    tiers = {"quick": {"runs": 8000, "wall_cap": 600, "chunk": 30}, "thorough": {"runs": 160000, "wall_cap": 3300, "chunk": 50}}

    def generate(self, rng: SimRng):
        g = rng.fork("workload")
        nr = g.np("data")
        n = g.pick([4, 6, 9, 12])
        if self.tier == "thorough" and g.chance(0.004):
            n = g.pick([2049, 2100])  # buffers sized by the pool: behaviour must not change with the pool size
        d = g.pick([1, 2])
        classes = g.pick([[0, 1], [0, 1, 2]])
        lab = nr.randint(0, len(classes), n)
        X = np.round(np.array(lab)[:, None] * 2.0 + nr.normal(0, 0.8, (n, d)), 3)
        y = [float(classes[i]) if g.chance(0.7) else None for i in lab]
        w = [round(g.uniform(0.3, 2.0), 2) for _ in range(n)] if g.chance(0.4) else None
        clf = g.pick(WRAPPED)
        flags = {"use_speed_up": g.chance(0.5), "enforce_unique_samples": g.chance(0.4), "ignore_partial_fit": g.chance(0.5)}
        sc = {"engine": "idxsim", "clf": clf, "clf_seed": g.randrange(0, 50), "classes": classes, "X": X.tolist(), "y": y, "w": w, "flags": flags}
        if g.chance(0.2):
            sc["prefit"] = {"idx": sorted(g.sample(range(n), g.randint(1, min(n, 60))))}
            sc["init_set_base"] = g.chance(0.5)
        elif g.chance(0.05):
            sc["init_set_base"] = True
        ops = []
        if g.chance(0.85):
            ops.append({"op": "precompute"})
        elif g.chance(0.6):
            # the caller announces only part of the kernel (possibly in several calls)
            for _ in range(g.pick([1, 2, 3])):
                ops.append({"op": "precompute", "fit_idx": sorted(g.sample(range(n), g.randint(1, min(n, 60)))), "pred_idx": sorted(g.sample(range(n), g.randint(1, min(n, 60)))), "fit_params": g.pick(["all", "all", "labeled", "unlabeled"]), "pred_params": g.pick(["all", "all", "labeled", "unlabeled"])})
        for _ in range(g.pick([3, 5, 8, 12, 18] + ([25, 25] if self.tier == "thorough" else [])) if n < 100 else 4):
            r = g.random()
            k = g.randint(1, max(1, min(n - 1, 60)))
            idx = [g.randrange(n) for _ in range(k)] if g.chance(0.25) else g.sample(range(n), k)
            o = {"idx": idx}
            if g.chance(0.3):
                o["y"] = [float(g.pick(classes)) if g.chance(0.85) else None for _ in idx]
            if g.chance(0.25) and w is not None:
                # weight overrides only when the pool has weights: mixing weighted and unweighted triples is an
                # invalid call (refused with ValueError half-way through; the state afterwards is unspecified)
                o["w"] = [round(g.uniform(0.3, 2.0), 2) for _ in idx]
            if r < 0.3:
                o.update(op="fit", set_base=g.chance(0.4))
            elif r < 0.7:
                o.update(op="partial_fit", use_base=g.chance(0.4), set_base=g.chance(0.25))
                o["idx"] = o["idx"][: g.pick([1, 1, 2, len(o["idx"])])]
                for key in ("y", "w"):
                    if key in o:
                        o[key] = o[key][: len(o["idx"])]
            else:
                kinds = ["predict_proba", "predict_proba", "predict"] + (["predict_freq"] if clf.startswith("pwc") else [])
                o = {"op": g.pick(kinds), "idx": sorted(g.sample(range(n), g.randint(1, min(n, 60))))}
            ops.append(o)
        if not any(o["op"] == "precompute" for o in ops) and g.chance(0.5):
            ops.insert(g.randrange(len(ops) + 1), {"op": "precompute"})
        sc["ops"] = ops
        # a fifth of the runs: class names are strings, a missing label is None (wrapper, classifier, overrides)
        sc["str_labels"] = rng.fork("str").chance(0.2)
        return sc

    # ------------------------------------------------------------------
    def _build_wrapper(self, sc, speed_up):
        from skactiveml.pool.utils import IndexClassifierWrapper

        X = np.array(sc["X"], dtype=float)
        y = np.array([np.nan if v is None else v for v in sc["y"]], dtype=float)
        w = None if sc.get("w") is None else np.array(sc["w"], dtype=float)
        clf = make_clf(sc["clf"], sc["classes"], sc["clf_seed"], sc.get("str_labels"))
        y = enc_labels(y, sc)
        pre = sc.get("prefit")
        if pre is not None:
            idx = pre["idx"]
            clf.fit(X[idx], y[idx], sample_weight=w[idx]) if w is not None else clf.fit(X[idx], y[idx])
        f = sc["flags"]
        return IndexClassifierWrapper(
            clf,
            X,
            y,
            sample_weight=w,
            set_base_clf=bool(sc.get("init_set_base")),
            ignore_partial_fit=f["ignore_partial_fit"],
            enforce_unique_samples=f["enforce_unique_samples"],
            use_speed_up=speed_up,
            **({"missing_label": None} if sc.get("str_labels") else {}),
        )

    def _apply(self, wrp, op):
        name = op["op"]
        n = len(wrp.X)
        if name == "precompute":
            fi = np.arange(n) if op.get("fit_idx") is None else np.array(op["fit_idx"], dtype=int)
            pi = np.arange(n) if op.get("pred_idx") is None else np.array(op["pred_idx"], dtype=int)
            wrp.precompute(fi, pi, fit_params=op.get("fit_params", "all"), pred_params=op.get("pred_params", "all"))
            return None
        idx = np.array(op["idx"], dtype=int)
        y = None if op.get("y") is None else enc_labels(np.array([np.nan if v is None else v for v in op["y"]], dtype=float), self._sc)
        w = None if op.get("w") is None else np.array(op["w"], dtype=float)
        if name == "fit":
            wrp.fit(idx, y=y, sample_weight=w, set_base_clf=bool(op.get("set_base")))
            return None
        if name == "partial_fit":
            wrp.partial_fit(idx, y=y, sample_weight=w, use_base_clf=bool(op.get("use_base")), set_base_clf=bool(op.get("set_base")))
            return None
        return np.asarray(getattr(wrp, name)(idx))

    def _run_world(self, sc, speed_up, ctx, judge):
        """Returns the list of (op index, kind, value) observations."""
        subj = "IndexClassifierWrapper"
        self._sc = sc
        if judge and sc.get("str_labels"):
            ctx.probe("string_class_labels")
        cond = {"clf": sc["clf"], "speed_up": bool(speed_up), "unique": sc["flags"]["enforce_unique_samples"], "native_partial_fit": sc["clf"] in NATIVE_PF and not sc["flags"]["ignore_partial_fit"]}
        model = RefModel(sc)
        obs = []
        try:
            model.init()
            model_refuses = False
        except Refusal:
            model_refuses = True
        try:
            wrp = self._build_wrapper(sc, speed_up)
            real_refuses = False
        except Exception as e:
            real_refuses = True
            err = e
        if judge and model_refuses != real_refuses:
            ctx.violate("refusal-mismatch", subj, f"construction: model {'refuses' if model_refuses else 'accepts'}, wrapper {'refuses' if real_refuses else 'accepts'}", cond)
            return obs
        if real_refuses:
            if judge:
                ctx.probe("refusal_predicted")
                ctx.fault("documented_refusal")
            return obs
        is_pwc = sc["clf"].startswith("pwc")
        precomputed = False
        n_pool = len(sc["X"])
        covered = np.zeros((n_pool, n_pool), dtype=bool)
        moved_since_base = False
        for t, op in enumerate(sc["ops"]):
            name = op["op"]
            if name == "precompute":
                self._apply(wrp, op)
                precomputed = True
                # which kernel entries the caller has announced (documented meaning of the four arguments)
                y0 = np.array([np.nan if v is None else v for v in sc["y"]], dtype=float)
                sel = {"all": np.ones(n_pool, dtype=bool), "labeled": ~np.isnan(y0), "unlabeled": np.isnan(y0)}
                fi = np.arange(n_pool) if op.get("fit_idx") is None else np.array(op["fit_idx"], dtype=int)
                pi = np.arange(n_pool) if op.get("pred_idx") is None else np.array(op["pred_idx"], dtype=int)
                fi = fi[sel[op.get("fit_params", "all")][fi]]
                pi = pi[sel[op.get("pred_params", "all")][pi]]
                if len(fi) and len(pi):
                    covered[np.ix_(fi, pi)] = True
                if judge and not covered.all():
                    ctx.probe("partial_precompute")
                continue
            if name in ("fit", "partial_fit"):
                m2 = copy.deepcopy(model)
                try:
                    getattr(m2, name)(op)
                    m_ref = None
                except Refusal as r:
                    m_ref = str(r)
                try:
                    self._apply(wrp, op)
                    r_ref = None
                except Exception as e:
                    r_ref = f"{type(e).__name__}: {str(e)[:80]}"
                if judge:
                    if len(set(op["idx"])) < len(op["idx"]):
                        ctx.fault("repeated_indices")
                    if op.get("y") is not None:
                        ctx.fault("label_override")
                    if op.get("w") is not None:
                        ctx.fault("weight_override")
                if (m_ref is None) != (r_ref is None):
                    # a fit of the wrapped classifier may legitimately fail for reasons of its own (e.g. a
                    # refusal of inconsistent weights inside the classifier): confirm with the reference classifier
                    if m_ref is None:
                        try:
                            m2.reference_clf()
                            ref_fit_ok = True
                        except Exception:
                            ref_fit_ok = False
                        if not ref_fit_ok:
                            return obs  # the wrapped classifier itself refuses these data: outside the property
                    if judge:
                        ctx.violate("refusal-mismatch", subj, f"op {t} {name}({op.get('idx')}, use_base={op.get('use_base')}, set_base={op.get('set_base')}): model {'refuses (' + m_ref + ')' if m_ref else 'accepts'}, wrapper {'refuses (' + r_ref + ')' if r_ref else 'accepts'}", cond)
                    return obs
                if m_ref is not None:
                    if judge:
                        ctx.probe("refusal_predicted")
                        ctx.fault("documented_refusal")
                    if "not fitted" not in m_ref and "not set" not in m_ref and "outside the wrapper" not in m_ref and "provenance" not in m_ref:
                        return obs  # argument-validation refusal: the state afterwards is unspecified, stop here
                    continue  # state refusals happen before any mutation: the wrapper must be unchanged
                if judge and name == "partial_fit":
                    ctx.probe("native_partial_fit" if model.native else "emulated_partial_fit")
                    if op.get("use_base"):
                        ctx.fault("base_restart")
                        if moved_since_base:
                            ctx.probe("partial_fit_from_base_after_divergence")
                    if model.unique and model.cur and not model.native and set(op["idx"]) & set(model.cur[0][1]["idx"]):
                        ctx.probe("unique_replaced_sample")
                model = m2
                moved_since_base = not op.get("set_base")
                if op.get("set_base"):
                    moved_since_base = False
                ctx.sim_time += 1 if judge else 0
                continue
            # ---- predictions
            if model.cur is None:
                continue
            if speed_up and is_pwc and (not precomputed):
                continue  # missing kernel entries: documented refusal, not judged here
            if speed_up and is_pwc and model.cur[0][0] == "prefit":
                ctx.probe("speed_up_with_prefitted_clf")
            expect_refusal = False
            if speed_up and is_pwc and model.cur[0][0] != "prefit":
                train = sorted(set(i for _, tr in model.cur for i in tr["idx"]))
                expect_refusal = not covered[np.ix_(train, sorted(set(op["idx"])))].all()
            try:
                val = self._apply(wrp, op)
            except Exception as e:
                if expect_refusal and isinstance(e, ValueError) and "pre-computed" in str(e):
                    # kernel entries the caller never announced: the documented refusal
                    if judge:
                        ctx.probe("refused_missing_kernel_entries")
                    continue
                if judge:
                    ctx.violate("prediction-raises", subj, f"op {t} {name}({op['idx']}) raised {type(e).__name__}: {str(e)[:100]}", dict(cond, exc=type(e).__name__))
                return obs
            obs.append((t, name, val, neighbour_ties(sc, model.cur[-1][1]["idx"] if model.cur else [], op["idx"])))
            if judge:
                try:
                    ref = model.reference_clf()
                    rv = np.asarray(getattr(ref, name)(np.array(sc["X"], dtype=float)[op["idx"]]))
                except Exception:
                    continue
                ctx.probe("prediction_compared")
                ctx.log.add(name, val)
                amb = neighbour_ties(sc, model.cur[-1][1]["idx"] if model.cur else [], op["idx"])
                if amb.any():
                    ctx.probe("neighbour_tie_rows_skipped")
                    val_j, rv_j = np.asarray(val)[~amb], np.asarray(rv)[~amb]
                    op_j = dict(op, idx=[i for i, a in zip(op["idx"], amb) if not a])
                else:
                    val_j, rv_j, op_j = val, rv, op
                if len(op_j["idx"]) and not self._same_pred(name, val_j, rv_j, ref, sc, op_j):
                    ctx.violate(
                        "differs-from-retrained",
                        subj,
                        f"op {t}: {name}({op['idx']}) = {np.asarray(val).ravel()[:6]} but a fresh {sc['clf']} trained on the implied multiset {self._describe(model)} gives {np.asarray(rv).ravel()[:6]}",
                        cond,
                    )
                    return obs
        return obs

    @staticmethod
    def _describe(model):
        return [(k, t["idx"]) for k, t in (model.cur or [])][:4]

    def _same_pred(self, name, val, rv, ref, sc, op):
        if name in ("predict_proba", "predict_freq"):
            return val.shape == rv.shape and close(val, rv, rtol=1e-9, atol=1e-12)
        # hard predictions: only where the reference margin is clear, and not while the wrapped SklearnClassifier
        # is in its could-not-be-fitted state (it then *samples* a class from the label counts: C11 known finding)
        if getattr(ref, "is_fitted_", True) is False:
            return True
        try:
            P = np.asarray(ref.predict_proba(np.array(sc["X"], dtype=float)[op["idx"]]))
            srt = np.sort(P, axis=1)
            clear = (srt[:, -1] - srt[:, -2]) > 1e-9
        except Exception:
            return True
        return val.shape == rv.shape and bool(np.all(val[clear] == rv[clear]))

    def execute(self, sc, keep_log=False):
        ctx = Ctx(self.prop, keep_log)
        speed = sc["flags"]["use_speed_up"]
        try:
            obs = self._run_world(sc, speed, ctx, True)
        except Exception as e:
            ctx.notes.append(repr(e)[:200])
            return ctx.result(sig="idx|harness", extra={"aborted": True, "notes": ctx.notes})
        if not ctx.violations and sc["clf"].startswith("pwc"):
            # the speed-up twin
            try:
                obs2 = self._run_world(sc, not speed, Ctx("twin"), False)
            except Exception:
                obs2 = None
            if obs2 is not None:
                d1 = {(t, n): (v, amb) for t, n, v, amb in obs}
                d2 = {(t, n): (v, amb) for t, n, v, amb in obs2}
                for key in sorted(set(d1) & set(d2)):
                    ctx.probe("speedup_twin_compared")
                    (a, amb), (b, _) = d1[key], d2[key]
                    if amb.any() and np.asarray(a).shape[0] == len(amb):
                        a, b = np.asarray(a)[~amb], np.asarray(b)[~amb]
                    ok = close(a, b, rtol=1e-9, atol=1e-12) if key[1] != "predict" else True
                    if not ok:
                        ctx.violate("speedup-changes-prediction", "IndexClassifierWrapper", f"op {key[0]}: {key[1]} differs with use_speed_up on/off: {np.asarray(a).ravel()[:4]} vs {np.asarray(b).ravel()[:4]}", {"clf": sc["clf"]})
                        break
        kinds = ",".join(sorted(set(o["op"] for o in sc["ops"])))
        sig = "|".join([sc["clf"], "".join(str(int(v)) for v in sc["flags"].values()), kinds, ",".join(sorted(ctx.probes)), ",".join(sorted(ctx.faults))])
        return ctx.result(sig=sig, extra={"notes": ctx.notes[:2]})

    def nontrivial(self, res):
        p = res["probes"]
        f = res["faults"]
        return p.get("prediction_compared", 0) > 0 and (p.get("partial_fit_from_base_after_divergence", 0) > 0 or ((p.get("emulated_partial_fit", 0) > 0) and (f.get("label_override", 0) + f.get("weight_override", 0) + f.get("repeated_indices", 0)) > 0))

    def shrink(self, sc):
        ops = sc["ops"]
        for keep in (len(ops) // 2, len(ops) - 1):
            if 1 <= keep < len(ops):
                c = copy.deepcopy(sc)
                c["ops"] = ops[:keep]
                yield c
        for j in range(len(ops)):
            if len(ops) > 1:
                c = copy.deepcopy(sc)
                del c["ops"][j]
                yield c
        for j, o in enumerate(ops):
            for key in ("y", "w"):
                if o.get(key) is not None:
                    c = copy.deepcopy(sc)
                    del c["ops"][j][key]
                    yield c
            if len(o.get("idx", [])) > 1:
                c = copy.deepcopy(sc)
                c["ops"][j]["idx"] = o["idx"][:1]
                for key in ("y", "w"):
                    if c["ops"][j].get(key) is not None:
                        c["ops"][j][key] = c["ops"][j][key][:1]
                yield c
            for key in ("set_base", "use_base"):
                if o.get(key):
                    c = copy.deepcopy(sc)
                    c["ops"][j][key] = False
                    yield c
        if sc.get("w") is not None:
            c = copy.deepcopy(sc)
            c["w"] = None
            for o in c["ops"]:
                o.pop("w", None)
            yield c
        for k in list(sc["flags"]):
            if sc["flags"][k]:
                c = copy.deepcopy(sc)
                c["flags"][k] = False
                yield c
