"""simkit.core -- seeds, canonicalisation, event log, probes, fuel.

Everything a run decides is derived from one integer (the run seed).  Nothing
in this module reads a clock or draws from a PRNG on a logging path.
"""
from __future__ import annotations

import hashlib
import json
import math
import random
import sys
from collections import Counter, deque

import numpy as np

# --------------------------------------------------------------------------
# seeds
# --------------------------------------------------------------------------


def derive_seed(*parts) -> int:
    """Stable 63 bit integer derived from the string form of ``parts``."""
    h = hashlib.sha256("/".join(str(p) for p in parts).encode()).digest()
    return int.from_bytes(h[:8], "big") >> 1


class SimRng(random.Random):
    """``random.Random`` with named forks.

    ``fork(name)`` gives an independent stream whose seed is a hash of the
    parent seed and the name, so adding a draw for one concern never shifts
    the draws of another concern.
    """

    def __init__(self, seed: int):
        super().__init__(seed)
        self.seed_value = int(seed)

    def fork(self, name: str) -> "SimRng":
        return SimRng(derive_seed(self.seed_value, name))

    def np(self, name: str) -> np.random.RandomState:
        return np.random.RandomState(derive_seed(self.seed_value, name) % (2**32))

    # small helpers used by the generators
    def chance(self, p: float) -> bool:
        return self.random() < p

    def pick(self, seq):
        return seq[self.randrange(len(seq))]

    def subset(self, seq, p=0.5, at_least=0):
        out = [s for s in seq if self.random() < p]
        while len(out) < at_least and len(out) < len(seq):
            c = self.pick(seq)
            if c not in out:
                out.append(c)
        return out

    def log_uniform(self, lo: float, hi: float) -> float:
        return math.exp(self.uniform(math.log(lo), math.log(hi)))


# --------------------------------------------------------------------------
# canonical form of observables
# --------------------------------------------------------------------------


def _canon_float(x: float):
    if x != x:
        return "nan"
    if x in (float("inf"), float("-inf")):
        return "inf" if x > 0 else "-inf"
    return float(x).hex()


def canon(o, _depth=0):
    """JSON-able canonical form of an observable (bit exact for floats)."""
    if _depth > 8:
        return "<deep>"
    if o is None or isinstance(o, (bool, str)):
        return o
    if isinstance(o, (int, np.integer)):
        return int(o)
    if isinstance(o, (float, np.floating)):
        return _canon_float(float(o))
    if isinstance(o, np.ndarray):
        a = o
        if a.dtype == object:
            return {"nd": "O", "shape": list(a.shape), "v": [canon(x, _depth + 1) for x in a.ravel().tolist()]}
        if a.dtype.kind == "f":
            a = np.where(np.isnan(a), np.nan, a)  # one NaN payload
        a = np.ascontiguousarray(a)
        return {
            "nd": a.dtype.str,
            "shape": list(a.shape),
            "h": hashlib.sha256(a.tobytes()).hexdigest()[:24],
        }
    if isinstance(o, np.random.RandomState):
        st = o.get_state()
        return {
            "rs": hashlib.sha256(np.asarray(st[1]).tobytes() + repr(st[2:]).encode()).hexdigest()[:24]
        }
    if isinstance(o, deque):
        # the bound is part of a window's state (deque == deque ignores it)
        return {"deque": [canon(x, _depth + 1) for x in o], "maxlen": o.maxlen}
    if isinstance(o, (list, tuple)):
        return [canon(x, _depth + 1) for x in o]
    if isinstance(o, (set, frozenset)):
        return sorted((canon(x, _depth + 1) for x in o), key=repr)
    if isinstance(o, dict):
        return {str(k): canon(v, _depth + 1) for k, v in sorted(o.items(), key=lambda kv: str(kv[0]))}
    if isinstance(o, BaseException):
        return {"exc": type(o).__name__}
    if hasattr(o, "get_params") and not isinstance(o, type):
        try:
            params = o.get_params(deep=False)
        except Exception:  # pragma: no cover - defensive
            params = {}
        return {"est": type(o).__name__, "params": canon(params, _depth + 1)}
    if callable(o):
        return {"fn": getattr(o, "__qualname__", type(o).__name__)}
    return {"obj": type(o).__name__}


def canon_bytes(o) -> bytes:
    return json.dumps(canon(o), sort_keys=True, separators=(",", ":")).encode()


class EventLog:
    """Append-only log; the digest is the SHA-256 over all entries."""

    def __init__(self, keep=False):
        self._h = hashlib.sha256()
        self.n = 0
        self.keep = keep
        self.entries = []

    def add(self, op: str, payload=None):
        b = canon_bytes(payload)
        self._h.update(f"{self.n}|{op}|".encode())
        self._h.update(b)
        if self.keep:
            self.entries.append((self.n, op, b.decode()))
        self.n += 1

    def digest(self) -> str:
        return self._h.hexdigest()


# --------------------------------------------------------------------------
# comparison helpers used by the oracles
# --------------------------------------------------------------------------


def same(a, b) -> bool:
    """Bit-identity of two observables (NaN-aware)."""
    return canon_bytes(a) == canon_bytes(b)


def close(a, b, rtol=1e-12, atol=0.0) -> bool:
    """Numerical closeness of nested structures; ints/strings exactly."""
    if isinstance(a, np.random.RandomState) or isinstance(b, np.random.RandomState):
        return same(a, b)
    if isinstance(a, (list, tuple, deque)) and isinstance(b, (list, tuple, deque)):
        return len(a) == len(b) and all(close(x, y, rtol, atol) for x, y in zip(a, b))
    if isinstance(a, dict) and isinstance(b, dict):
        return set(a) == set(b) and all(close(a[k], b[k], rtol, atol) for k in a)
    try:
        aa = np.asarray(a)
        bb = np.asarray(b)
        if aa.dtype == object or bb.dtype == object:
            return same(a, b)
        if aa.shape != bb.shape:
            return False
        if aa.dtype.kind in "fc" or bb.dtype.kind in "fc":
            return bool(np.allclose(aa, bb, rtol=rtol, atol=atol, equal_nan=True))
        return bool(np.array_equal(aa, bb))
    except Exception:
        return same(a, b)


# --------------------------------------------------------------------------
# run context: probes, fault counters, violations
# --------------------------------------------------------------------------


class Violation(dict):
    """property / clause / subject / cond identify the violation class."""

    def key(self):
        return (self["property"], self["clause"], self["subject"])


class Ctx:
    def __init__(self, prop: str, keep_log=False):
        self.prop = prop
        self.log = EventLog(keep=keep_log)
        self.probes = Counter()
        self.faults = Counter()
        self.violations = []
        self.sim_time = 0
        self.notes = []

    def probe(self, name, n=1):
        self.probes[name] += n

    def fault(self, kind, n=1):
        self.faults[kind] += n

    def violate(self, clause, subject, detail, cond=None, prop=None):
        self.violations.append(
            Violation(
                property=prop or self.prop,
                clause=clause,
                subject=subject,
                cond=dict(cond or {}),
                detail=str(detail)[:600],
                at=self.log.n,
            )
        )

    def result(self, sig=None, extra=None):
        r = {
            "violations": [dict(v) for v in self.violations],
            "probes": dict(self.probes),
            "faults": dict(self.faults),
            "sim_time": int(self.sim_time),
            "events": self.log.n,
            "digest": self.log.digest(),
            "sig": sig,
        }
        if extra:
            r.update(extra)
        return r


# --------------------------------------------------------------------------
# fuel: deterministic step budget for liveness clauses
# --------------------------------------------------------------------------


class SimFuelExhausted(BaseException):
    """Raised inside a library call once its line budget is used up.

    Derives from BaseException so that ``except Exception`` blocks inside the
    library cannot swallow it.
    """


class Fuel:
    """Counts 'line' events executed in files below ``root_marker``.

    ``with Fuel(limit) as f: call()`` -- ``f.used`` holds the number of line
    events afterwards.  The count is a function of code and arguments only, so
    an exhaustion replays exactly.
    """

    def __init__(self, limit=2_000_000, root_marker="/skactiveml/"):
        self.limit = limit
        self.marker = root_marker
        self.used = 0
        self._prev = None

    def _global(self, frame, event, arg):
        if self.marker in frame.f_code.co_filename:
            return self._local
        return None

    def _local(self, frame, event, arg):
        if event == "line":
            self.used += 1
            if self.used > self.limit:
                raise SimFuelExhausted(f"more than {self.limit} line events")
        return self._local

    def __enter__(self):
        self._prev = sys.gettrace()
        sys.settrace(self._global)
        return self

    def __exit__(self, *exc):
        sys.settrace(self._prev)
        return False


# --------------------------------------------------------------------------
# misc
# --------------------------------------------------------------------------


def jsonable(o):
    """Convert numpy containers into plain python for scenario files."""
    if isinstance(o, np.ndarray):
        return jsonable(o.tolist())
    if isinstance(o, (np.integer,)):
        return int(o)
    if isinstance(o, (np.floating,)):
        return float(o)
    if isinstance(o, (np.bool_,)):
        return bool(o)
    if isinstance(o, dict):
        return {str(k): jsonable(v) for k, v in o.items()}
    if isinstance(o, (list, tuple)):
        return [jsonable(x) for x in o]
    return o


def arr(x, dtype=float):
    """Scenario literal -> ndarray (None stays None; 'nan' strings allowed)."""
    if x is None:
        return None
    return np.array(x, dtype=dtype)
