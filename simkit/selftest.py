"""Self tests of the simulator.

``selftest determinism [--seeds N] [--props C03,C04]``
    every run index is executed twice in this process and once more in a fresh
    interpreter started under a different PYTHONHASHSEED; all digests must agree.

``selftest sensitivity [--runs N]``
    every patch in selftest/mutants/<ID>-*.patch is applied to a scratch worktree
    of the repository and the named check must report a violation.
"""
from __future__ import annotations

import json
import os
import subprocess
import sys

from .cli import REGISTRY, get_check
from .runner import ROOT


def _digests(props, n, master):
    out = {}
    for p in props:
        try:
            c = get_check(p)
        except (ImportError, AttributeError):
            continue
        ds = []
        for i in range(n):
            _, res = c.run_one(master, i)
            ds.append(res["digest"] + ":" + str(len(res["violations"])) + ":" + str(res["sim_time"]))
        out[p] = ds
    return out


def determinism(argv):
    n = 8
    props = sorted(REGISTRY)
    master = int(os.environ.get("VERIF_SEED", "0") or 0)
    emit = False
    it = iter(argv)
    for a in it:
        if a == "--seeds":
            n = int(next(it))
        elif a == "--props":
            props = next(it).split(",")
        elif a == "--emit":
            emit = True
    d1 = _digests(props, n, master)
    if emit:
        print("DIGESTS " + json.dumps(d1, sort_keys=True))
        return 0
    d2 = _digests(props, n, master)
    bad = 0
    for p in d1:
        for i, (a, b) in enumerate(zip(d1[p], d2[p])):
            if a != b:
                print(f"NONDETERMINISM property={p} run={i} in-process: {a} vs {b}")
                bad += 1
    env = dict(os.environ)
    env["PYTHONHASHSEED"] = "12345"
    cp = subprocess.run(
        [sys.executable, os.path.join(ROOT, "run.py"), "selftest", "determinism", "--seeds", str(n), "--props", ",".join(d1), "--emit"],
        env=env,
        capture_output=True,
        text=True,
        timeout=1800,
    )
    line = next((l for l in cp.stdout.splitlines() if l.startswith("DIGESTS ")), None)
    if line is None:
        print("HARNESS-ERROR fresh interpreter produced no digests:\n" + cp.stderr[-1500:])
        return 2
    d3 = json.loads(line[len("DIGESTS ") :])
    for p in d1:
        for i, (a, b) in enumerate(zip(d1[p], d3.get(p, []))):
            if a != b:
                print(f"NONDETERMINISM property={p} run={i} fresh interpreter / other hash seed: {a} vs {b}")
                bad += 1
    total = sum(len(v) for v in d1.values())
    print(f"determinism: {len(d1)} checks x {n} run seeds x 3 executions, {bad} mismatches ({total} digests compared twice)")
    return 0 if bad == 0 else 2


def sensitivity(argv):
    runs = None
    only = None
    it = iter(argv)
    for a in it:
        if a == "--runs":
            runs = next(it)
        elif a == "--only":
            only = next(it)
    mdir = os.path.join(ROOT, "selftest", "mutants")
    missed = []
    n = 0
    for f in sorted(os.listdir(mdir)):
        if not f.endswith(".patch") or (only and only not in f):
            continue
        prop = f.split("-")[0]
        cmd = [os.path.join(ROOT, "tools", "mutant.sh"), os.path.join(mdir, f), prop]
        if runs:
            cmd += ["--runs", runs]
        cp = subprocess.run(cmd, capture_output=True, text=True)
        hit = f"VIOLATION property={prop}" in cp.stdout
        n += 1
        print(f"{'caught' if hit else 'MISSED'}  {f}  (exit {cp.returncode})")
        if not hit:
            missed.append(f)
    print(f"sensitivity: {n - len(missed)}/{n} mutants caught")
    return 0 if not missed else 1


def main(argv):
    if not argv or argv[0] == "determinism":
        return determinism(argv[1:])
    if argv[0] == "sensitivity":
        return sensitivity(argv[1:])
    print("unknown selftest", argv[0])
    return 2
