"""simkit.runner -- seeded search, minimisation, replay files, evidence.

Exit codes: 0 nothing unlisted found, 1 violation (``VIOLATION property=..
replay=..`` printed), 2 harness error (never to be read as pass or fail).
"""
from __future__ import annotations

import faulthandler
import json
import multiprocessing
import os
import sys
import time
import traceback
from collections import Counter
from concurrent.futures import ProcessPoolExecutor, as_completed

from .core import SimRng, derive_seed, jsonable

ROOT = os.path.dirname(os.path.dirname(os.path.abspath(__file__)))
OUT = os.environ.get("VERIF_OUT") or ROOT  # scratch runs (mutants) write elsewhere
EVIDENCE_DIR = os.path.join(OUT, "evidence")
REPLAY_DIR = os.path.join(OUT, "replays")
KNOWN_FILE = os.path.join(ROOT, "known_findings.json")


class HarnessError(Exception):
    pass


# --------------------------------------------------------------------------
# check interface
# --------------------------------------------------------------------------


class Check:
    """Base class of a property check.

    Sub-classes provide ``generate(rng) -> scenario`` (JSON-able),
    ``execute(scenario) -> result`` (dict from ``Ctx.result``) and
    ``shrink(scenario)`` yielding smaller candidate scenarios.
    """

    prop = "C00"
    engine = "?"
    tier = "quick"  # set by the runner; generators may use deeper bounds in the thorough tier
    rule = ""
    components = {"real": [], "stub": []}
    assumptions = []
    tiers = {"quick": {"runs": 200, "wall_cap": 240}, "thorough": {"runs": 4000, "wall_cap": 1500}}
    sim_time_unit = "steps"
    fault_kinds = []
    probes_expected = []
    chunk = 8  # runs per worker task

    def generate(self, rng: SimRng) -> dict:  # pragma: no cover - interface
        raise NotImplementedError

    def execute(self, scenario: dict, keep_log=False) -> dict:  # pragma: no cover
        raise NotImplementedError

    def shrink(self, scenario: dict):
        return iter(())

    def nontrivial(self, result: dict) -> bool:
        return bool(result.get("faults")) and bool(result.get("probes"))

    def run_seed(self, master: int, i: int) -> int:
        return derive_seed(master, self.prop, i)

    def run_one(self, master: int, i: int, keep_log=False):
        seed = self.run_seed(master, i)
        scenario = self.generate(SimRng(seed))
        scenario["run_seed"] = seed
        scenario["property"] = self.prop
        return scenario, self.execute(scenario, keep_log=keep_log)


# --------------------------------------------------------------------------
# known findings
# --------------------------------------------------------------------------


def load_known():
    if not os.path.exists(KNOWN_FILE):
        return []
    with open(KNOWN_FILE) as f:
        doc = json.load(f)
    return [e for e in doc.get("findings", []) if e.get("status") == "known"]


def match_known(v, known):
    for e in known:
        if e["property"] != v["property"] or e["clause"] != v["clause"]:
            continue
        subj = e.get("subject")
        if subj is not None and subj != v["subject"]:
            continue
        cond = v.get("cond", {})
        if all(cond.get(k) == val for k, val in e.get("where", {}).items()):
            return e
    return None


# --------------------------------------------------------------------------
# minimisation
# --------------------------------------------------------------------------


def vclass(v):
    return (v["property"], v["clause"], v["subject"], json.dumps(v.get("cond", {}), sort_keys=True))


def fails_same(check, scenario, target, known):
    """Does the scenario still show a violation of the target class?"""
    try:
        res = check.execute(scenario)
    except Exception:
        return None
    for v in res["violations"]:
        if vclass(v)[:3] == target[:3] and match_known(v, known) is None:
            return v
    return None


def minimise(check, scenario, violation, known, budget=300):
    target = vclass(violation)
    best = scenario
    best_v = violation
    used = 0
    improved = True
    while improved and used < budget:
        improved = False
        for cand in check.shrink(best):
            used += 1
            v = fails_same(check, cand, target, known)
            if v is not None:
                best, best_v = cand, v
                improved = True
                break
            if used >= budget:
                break
    return best, best_v, used


def write_replay(check, scenario, violation, minimised_from=None):
    d = os.path.join(REPLAY_DIR, check.prop)
    os.makedirs(d, exist_ok=True)
    path = os.path.join(d, f"{scenario.get('run_seed', 0)}-{violation['clause']}-{violation['subject']}.json".replace("/", "_").replace(" ", "_"))
    doc = {
        "property": check.prop,
        "engine": check.engine,
        "violation": violation,
        "scenario": jsonable(scenario),
        "minimised_from": minimised_from,
    }
    with open(path, "w") as f:
        json.dump(doc, f, indent=1, sort_keys=True)
    return path


# --------------------------------------------------------------------------
# workers
# --------------------------------------------------------------------------

_CHECK = None


def _work(args):
    master, idxs, task_timeout = args
    faulthandler.dump_traceback_later(task_timeout, exit=True)
    out = []
    try:
        for i in idxs:
            try:
                scenario, res = _CHECK.run_one(master, i)
            except Exception:
                out.append({"i": i, "harness_error": traceback.format_exc()[-1500:]})
                continue
            res["i"] = i
            res["nontrivial"] = bool(_CHECK.nontrivial(res))
            out.append(res)
    finally:
        faulthandler.cancel_dump_traceback_later()
    return out


# --------------------------------------------------------------------------
# main entry
# --------------------------------------------------------------------------


def run_check(check: Check, tier: str, master: int, jobs: int, runs=None, out=sys.stdout):
    global _CHECK
    check.tier = tier
    _CHECK = check
    cfg = dict(check.tiers[tier])
    n_runs = int(runs if runs is not None else cfg["runs"])
    wall_cap = float(os.environ.get("VERIF_WALL_CAP", cfg["wall_cap"]))
    task_timeout = int(cfg.get("task_timeout", 600))
    known = load_known()
    t0 = time.monotonic()

    idx = list(range(n_runs))
    step = max(1, int(cfg.get("chunk", check.chunk)))
    tasks = [(master, idx[k : k + step], task_timeout) for k in range(0, n_runs, step)]
    results = []
    harness_errors = []
    skipped = 0
    ctx = multiprocessing.get_context("fork")
    ex = ProcessPoolExecutor(max_workers=jobs, mp_context=ctx)
    try:
        futs = {ex.submit(_work, t): t for t in tasks}
        try:
            for fut in as_completed(futs, timeout=wall_cap):
                try:
                    for r in fut.result():
                        if "harness_error" in r:
                            harness_errors.append(r)
                        else:
                            results.append(r)
                except Exception as e:  # worker died (watchdog) or pool broke
                    harness_errors.append({"i": futs[fut][1][0], "harness_error": f"worker failure: {e!r}"})
        except TimeoutError:
            for fut in futs:
                if not fut.done():
                    fut.cancel()
                    skipped += len(futs[fut][1])
    finally:
        procs = list((getattr(ex, "_processes", None) or {}).values())
        ex.shutdown(wait=False, cancel_futures=True)
        for p in procs:
            try:
                p.terminate()
            except Exception:
                pass
    search_wall = time.monotonic() - t0
    results.sort(key=lambda r: r["i"])

    # ---------------- classify violations
    known_hit = Counter()
    known_entries = {}
    fresh = {}  # class -> (i, violation)
    n_viol_runs = 0
    for r in results:
        if r["violations"]:
            n_viol_runs += 1
        for v in r["violations"]:
            e = match_known(v, known)
            if e is not None:
                k = json.dumps(e, sort_keys=True)
                known_hit[k] += 1
                known_entries[k] = e
            else:
                fresh.setdefault(vclass(v)[:3], (r["i"], v))

    replay_paths = []
    max_min = int(cfg.get("max_minimise", 6))
    for n, (cls, (i, v)) in enumerate(sorted(fresh.items(), key=lambda kv: kv[1][0])):
        scenario, res = check.run_one(master, i)
        vv = next((x for x in res["violations"] if vclass(x)[:3] == cls), None)
        if vv is None:
            harness_errors.append({"i": i, "harness_error": f"violation {cls} of run {i} did not reproduce in the parent process"})
            continue
        orig_size = len(json.dumps(jsonable(scenario)))
        if n < max_min:
            scenario, vv, used = minimise(check, scenario, vv, known, budget=int(cfg.get("min_budget", 300)))
        else:
            used = 0
        path = write_replay(check, scenario, vv, minimised_from={"bytes": orig_size, "executions": used, "run_index": i})
        replay_paths.append(path)
        if n < int(cfg.get("max_replay_checks", 3)) and not _replays_in_fresh_process(path):
            # a violation that does not replay from its file in a fresh interpreter is my bug, not a finding
            harness_errors.append({"i": i, "harness_error": f"replay file {path} does not reproduce the violation in a fresh process"})
        print(f"VIOLATION property={check.prop} replay={path}", file=out)
        print(f"  clause={vv['clause']} subject={vv['subject']} cond={json.dumps(vv.get('cond', {}), sort_keys=True)}", file=out)
        print(f"  detail={vv['detail'][:300]}", file=out)
    for k, cnt in sorted(known_hit.items()):
        e = known_entries[k]
        print(f"KNOWN-FINDING: property={e['property']} {e['what']} [clause={e['clause']} subject={e.get('subject')} where={json.dumps(e.get('where', {}), sort_keys=True)} hits={cnt}]", file=out)

    # ---------------- evidence
    wall = time.monotonic() - t0
    probes = Counter()
    faults = Counter()
    sigs = set()
    sim_time = 0
    aborted = 0
    for r in results:
        probes.update(r["probes"])
        faults.update(r["faults"])
        sim_time += r["sim_time"]
        aborted += 1 if r.get("aborted") else 0
        if r["nontrivial"]:
            sigs.add(r["sig"])
    samples = []
    for i in range(min(3, n_runs)):
        try:
            sc = check.generate(SimRng(check.run_seed(master, i)))
            samples.append(_abbrev(jsonable(sc)))
        except Exception:
            pass
    evidence = {
        "property_id": check.prop,
        "tier": tier,
        "seed": int(master),
        "level": "exploration",
        "coverage": {
            "evaluations": len(results),
            "distinct_nontrivial": len(sigs),
            "rule": check.rule,
            "samples": samples,
            "runs_requested": n_runs,
            "runs_skipped_by_wall_cap": skipped,
            "runs_aborted_outside_property": aborted,
            "runs_per_hour": round(len(results) / max(search_wall, 1e-9) * 3600),
            "simulated_time": {"unit": check.sim_time_unit, "covered": sim_time},
            "fault_kinds_fired": dict(sorted(faults.items())),
            "probes": dict(sorted(probes.items())),
            "probes_unreached": sorted(p for p in check.probes_expected if probes.get(p, 0) == 0),
            "components": check.components,
            "engine": check.engine,
            "workers": jobs,
            "runs_with_violation": n_viol_runs,
            "known_findings_hit": {known_entries[k]["what"]: c for k, c in known_hit.items()},
            "replays": replay_paths,
            "harness_errors": len(harness_errors),
        },
        "assumptions": list(check.assumptions),
        "wall_s": round(wall, 3),
        "violations": len(fresh),
    }
    os.makedirs(EVIDENCE_DIR, exist_ok=True)
    with open(os.path.join(EVIDENCE_DIR, f"{check.prop}.json"), "w") as f:
        json.dump(evidence, f, indent=1, sort_keys=True)

    print(
        f"[{check.prop}] tier={tier} seed={master} runs={len(results)}/{n_runs} skipped={skipped} aborted={aborted} "
        f"distinct_nontrivial={len(sigs)} violations={len(fresh)} known={sum(known_hit.values())} "
        f"harness_errors={len(harness_errors)} wall={wall:.1f}s",
        file=out,
    )
    if probes:
        print("  probes: " + ", ".join(f"{k}={v}" for k, v in sorted(probes.items())), file=out)
    if faults:
        print("  faults: " + ", ".join(f"{k}={v}" for k, v in sorted(faults.items())), file=out)
    if fresh:
        return 1
    if harness_errors:
        for h in harness_errors[:3]:
            print(f"HARNESS-ERROR run={h['i']}: {h['harness_error']}", file=out)
        return 2
    if not results:
        print("HARNESS-ERROR no run completed", file=out)
        return 2
    return 0


def _replays_in_fresh_process(path):
    import subprocess

    try:
        cp = subprocess.run([sys.executable, os.path.join(ROOT, "run.py"), "replay", path], capture_output=True, text=True, timeout=900)
    except Exception:
        return False
    return cp.returncode == 1 and "VIOLATION property=" in cp.stdout


def _abbrev(o, max_list=12, depth=0):
    """Shorten long literal arrays in evidence samples (files stay small)."""
    if isinstance(o, list):
        if len(o) > max_list:
            return [_abbrev(x, max_list, depth + 1) for x in o[:max_list]] + [f"... {len(o) - max_list} more"]
        return [_abbrev(x, max_list, depth + 1) for x in o]
    if isinstance(o, dict):
        return {k: _abbrev(v, max_list, depth + 1) for k, v in o.items()}
    return o


def replay(check: Check, path: str, out=sys.stdout):
    with open(path) as f:
        doc = json.load(f)
    target = vclass(doc["violation"])
    res = check.execute(doc["scenario"], keep_log=False)
    for v in res["violations"]:
        if vclass(v)[:3] == target[:3]:
            print(f"VIOLATION property={check.prop} replay={path}", file=out)
            print(f"  clause={v['clause']} subject={v['subject']} detail={v['detail'][:300]}", file=out)
            print(f"  digest={res['digest']}", file=out)
            return 1
    print(f"NOT-REPRODUCED property={check.prop} replay={path} (violations seen: {[vclass(v)[:3] for v in res['violations']]})", file=out)
    return 0
