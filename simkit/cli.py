"""Command line of the simulator: check / replay / one / selftest."""
from __future__ import annotations

import argparse
import importlib
import json
import os
import sys

REGISTRY = {
    "C03": ("simkit.engines.streamsim", "C03Check"),
    "C04": ("simkit.engines.streamsim", "C04Check"),
    "C10": ("simkit.engines.streamsim", "C10Check"),
    "C14": ("simkit.engines.poolsim", "C14Check"),
    "C05": ("simkit.engines.poolsim", "C05Check"),
    "C06": ("simkit.engines.poolsim", "C06Check"),
    "C07": ("simkit.engines.crowdsim", "C07Check"),
    "C13": ("simkit.engines.lifesim", "C13Check"),
    "C11": ("simkit.engines.lifesim", "C11Check"),
    "C15": ("simkit.engines.lifesim", "C15Check"),
    "C19": ("simkit.engines.idxsim", "C19Check"),
    "C20": ("simkit.engines.parsim", "C20Check"),
}


def get_check(prop):
    mod, cls = REGISTRY[prop]
    return getattr(importlib.import_module(mod), cls)()


def main(argv=None):
    argv = list(sys.argv[1:] if argv is None else argv)
    if not argv:
        print("usage: check <ID> [--tier quick|thorough] | replay <file> | one <ID> <i> | selftest determinism", file=sys.stderr)
        return 2
    import warnings

    warnings.simplefilter("ignore")
    from . import runner

    cmd = argv[0]
    if cmd == "replay":
        path = argv[1]
        with open(path) as f:
            prop = json.load(f)["property"]
        return runner.replay(get_check(prop), path)
    if cmd == "one":
        check = get_check(argv[1])
        master = int(os.environ.get("VERIF_SEED", "0"))
        scenario, res = check.run_one(master, int(argv[2]), keep_log=True)
        if "--scenario" in argv:
            print(json.dumps(runner.jsonable(scenario), indent=1)[:20000])
        print(json.dumps({k: v for k, v in res.items()}, indent=1, default=str)[:6000])
        return 0
    if cmd == "selftest":
        from . import selftest

        return selftest.main(argv[1:])
    ap = argparse.ArgumentParser()
    ap.add_argument("prop")
    ap.add_argument("--tier", default=os.environ.get("VERIF_TIER", "quick"), choices=["quick", "thorough"])
    ap.add_argument("--runs", type=int, default=None)
    ap.add_argument("--jobs", type=int, default=int(os.environ.get("VERIF_JOBS", "16")))
    a = ap.parse_args(argv)
    master = int(os.environ.get("VERIF_SEED", "0") or 0)
    try:
        check = get_check(a.prop)
        return runner.run_check(check, a.tier, master, a.jobs, runs=a.runs)
    except Exception:
        import traceback

        print("HARNESS-ERROR " + traceback.format_exc()[-2000:])
        return 2
