import sys
from simkit.cli import main

if __name__ == "__main__":
    sys.exit(main())
