#!/usr/bin/env python3
"""Applies each property-preserving patch in selftest/benign/ to a scratch worktree and runs the checks that
exercise the touched code: none of them may report a violation (false-alarm test). usage: tools/benign.py [--runs N]"""
import os, subprocess, sys
ROOT = os.path.dirname(os.path.dirname(os.path.abspath(__file__)))
RELEVANT = {
    "C03-b1": ["C03", "C13", "C10", "C06"],
    "C04-b2": ["C04", "C10", "C03"],
    "C13-b4": ["C13", "C11", "C19", "C05"],
    "C14-b5": ["C14", "C06", "C20", "C05", "C07"],
    "C19-b6": ["C19", "C14"],
    "C20-b7": ["C20", "C05", "C06"],
    "C07-b8": ["C07", "C06"],
    "C05-b9": ["C05", "C14", "C06", "C20"],
    "C10-b10": ["C10", "C03", "C04", "C06", "C13"],
    "C15-b11": ["C15", "C13", "C06"],
    "C07-b12": ["C07", "C06"],
    "C05-b13": ["C05", "C14", "C06", "C20", "C07"],
    "C20-b14": ["C20", "C05", "C14", "C06"],
}
runs = sys.argv[sys.argv.index("--runs") + 1] if "--runs" in sys.argv else None
bad = 0
for f in sorted(os.listdir(os.path.join(ROOT, "selftest", "benign"))):
    key = "-".join(f.split("-")[:2])
    for prop in RELEVANT.get(key, [f.split("-")[0]]):
        cmd = [os.path.join(ROOT, "tools", "mutant.sh"), os.path.join(ROOT, "selftest", "benign", f), prop] + (["--runs", runs] if runs else [])
        cp = subprocess.run(cmd, capture_output=True, text=True)
        alarm = "VIOLATION property=" in cp.stdout or cp.returncode not in (0,)
        first = next((l.strip() for l in cp.stdout.splitlines() if l.startswith("  clause=")), "")
        print(("FALSE-ALARM " if alarm else "quiet       ") + f"{f[:40]:40s} {prop} exit={cp.returncode} {first[:120]}", flush=True)
        bad += alarm
print(f"benign: {bad} false alarms")
sys.exit(1 if bad else 0)
