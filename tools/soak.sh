#!/bin/sh
# usage: tools/soak.sh <first-seed> <count> [jobs]   -- quick tier of every check under several master seeds
# (evidence/replays go to ./soak-out so that the committed evidence files are not overwritten)
S=${1:-101}; N=${2:-4}; J=${3:-8}
cd "$(dirname "$0")/.."
i=0
while [ $i -lt $N ]; do
  s=$((S + i)); i=$((i + 1))
  for c in C03 C04 C10 C14 C05 C06 C07 C13 C11 C15 C19 C20; do
    echo "== seed $s $c"
    VERIF_SEED=$s VERIF_JOBS=$J VERIF_OUT=$PWD/soak-out ./check $c --tier quick 2>&1 | grep -E "VIOLATION|clause=|detail=|^\[C|HARNESS"
  done
done
