#!/usr/bin/env python3
"""Re-introduces every repaired defect (reverse patch of each fix: commit) in a scratch worktree and
confirms that the check named in known_findings.json reports it again. usage: tools/reverts.py [--jobs N] [filter]"""
import json, os, subprocess, sys, glob
ROOT = os.path.dirname(os.path.dirname(os.path.abspath(__file__)))
fixed = [f for f in json.load(open(os.path.join(ROOT, "known_findings.json")))["findings"] if f["status"] == "fixed"]
flt = [a for a in sys.argv[1:] if not a.startswith("-")]
res = []
for f in fixed:
    c = f["commit"]; prop = f["property"]
    if flt and not any(x in c or x == prop for x in flt):
        continue
    pats = glob.glob(os.path.join(ROOT, "selftest", "reverts", c + "-*.patch"))
    if not pats:
        print("NO-PATCH", c, prop); res.append((c, prop, "no-patch")); continue
    extra = ["--runs", str(f["revert_runs"])] if f.get("revert_runs") else []
    if f.get("revert_replay"):
        # a defect too rare for a seeded search of test size: the recorded scenario that found it is replayed
        # against the re-broken tree instead (must reproduce there; it does not on the repaired tree)
        cp = subprocess.run([os.path.join(ROOT, "tools", "mutant.sh"), pats[0], "replay", os.path.join(ROOT, f["revert_replay"])], capture_output=True, text=True)
    else:
        cp = subprocess.run([os.path.join(ROOT, "tools", "mutant.sh"), pats[0], prop, "--tier", "quick"] + extra, capture_output=True, text=True)
    hit = f"VIOLATION property={prop}" in cp.stdout
    first = next((l for l in cp.stdout.splitlines() if l.startswith("  clause=")), "")
    print(("caught " if hit else "MISSED ") + prop, c, os.path.basename(pats[0])[9:60], "|", first.strip()[:110], flush=True)
    res.append((c, prop, hit))
missed = [r for r in res if r[2] is not True]
print(f"reverts: {len(res) - len(missed)}/{len(res)} re-introduced defects caught")
sys.exit(1 if missed else 0)
