#!/usr/bin/env python3
"""Confirms a change written by a sub-agent and, if confirmed, stores it under /verif/seeded/<prop>-<i>/.

usage: tools/import_seed.py <prop> [i ...]      (reads /tmp/seed-<prop>/_out/change_i.diff, demo_i.py, notes_i.md)

Confirmation, all in a scratch worktree of /repo HEAD (never /repo itself):
  1. the patch applies;  2. the demonstration exits 0 without and 1 with the patch;
  3. the repository's own suite still passes with the patch (every test of BASELINE.json's stable_pass list).
"""
import json
import os
import shutil
import subprocess
import sys
import tempfile
import xml.etree.ElementTree as ET

ROOT = os.path.dirname(os.path.dirname(os.path.abspath(__file__)))


def sh(cmd, **kw):
    return subprocess.run(cmd, capture_output=True, text=True, **kw)


def demo(wt, path):
    env = dict(os.environ, PYTHONPATH=wt, OMP_NUM_THREADS="1", PYTHONDONTWRITEBYTECODE="1")
    try:
        cp = subprocess.run(["/venv/bin/python", path], capture_output=True, text=True, env=env, timeout=900, cwd=wt)
        return cp.returncode, (cp.stdout + cp.stderr).strip()[-400:]
    except subprocess.TimeoutExpired:
        return 124, "timeout"


def suite(wt):
    out = os.path.join(wt, ".junit.xml")
    env = {k: v for k, v in os.environ.items() if k != "SKACTIVEML_VERIF"}
    sh(["/venv/bin/python", "-m", "pytest", "-q", "-p", "no:cacheprovider", "--timeout=900", "--continue-on-collection-errors", "-n", os.environ.get("JOBS", "14"), f"--junitxml={out}"], cwd=wt, env=env)
    base = set(json.load(open("/root/.vp/BASELINE.json"))["stable_pass"])
    passed = set()
    try:
        for tc in ET.parse(out).getroot().iter("testcase"):
            name = f"{tc.get('classname')}::{tc.get('name')}"
            if not any(ch.tag in ("failure", "error", "skipped") for ch in tc):
                passed.add(name)
    except Exception as e:
        return False, [f"no junit: {e}"]
    missing = sorted(base - passed)
    return not missing, missing[:5]


def main():
    prop = sys.argv[1]
    rest = sys.argv[2:]
    src = f"/tmp/seed-{prop}/_out"
    offset = 0
    if "--src" in rest:
        src = rest[rest.index("--src") + 1]
        del rest[rest.index("--src") : rest.index("--src") + 2]
    if "--offset" in rest:
        offset = int(rest[rest.index("--offset") + 1])
        del rest[rest.index("--offset") : rest.index("--offset") + 2]
    ids = rest or sorted(f[len("change_") : -len(".diff")] for f in os.listdir(src) if f.startswith("change_") and f.endswith(".diff"))
    for i in ids:
        patch, dm, notes = (os.path.join(src, f) for f in (f"change_{i}.diff", f"demo_{i}.py", f"notes_{i}.md"))
        if not (os.path.exists(patch) and os.path.exists(dm)):
            print(prop, i, "INCOMPLETE")
            continue
        wt = tempfile.mkdtemp(prefix="verif-imp-")
        os.rmdir(wt)
        sh(["git", "-C", "/repo", "worktree", "add", "-q", "--detach", wt, "HEAD"])
        try:
            rc0, out0 = demo(wt, dm)
            ap = sh(["git", "-C", wt, "apply", patch])
            if ap.returncode != 0:
                print(prop, i, "REJECTED: patch does not apply:", ap.stderr[:200])
                continue
            rc1, out1 = demo(wt, dm)
            if not (rc0 == 0 and rc1 == 1):
                print(prop, i, f"REJECTED: demo clean={rc0} patched={rc1}: {out0[-150:]} // {out1[-150:]}")
                continue
            ok, missing = suite(wt)
            if not ok:
                print(prop, i, "REJECTED: repository tests fail with the change:", missing)
                continue
            dst = os.path.join(ROOT, "seeded", f"{prop}-{int(i) + offset}")
            os.makedirs(dst, exist_ok=True)
            shutil.copy(patch, os.path.join(dst, "patch.diff"))
            shutil.copy(dm, os.path.join(dst, "demo.py"))
            note_txt = open(notes).read() if os.path.exists(notes) else ""
            if note_txt:
                open(os.path.join(dst, "notes.md"), "w").write(note_txt)
            files = sh(["git", "-C", wt, "diff", "--stat"]).stdout.strip().splitlines()
            meta = {
                "property": prop,
                "origin": "independent sub-agent (saw only the property text and a scratch worktree, nothing from /verif)",
                "files": [l.split("|")[0].strip() for l in files[:-1]],
                "needs": " ".join(note_txt.split())[:600],
                "confirmed": {
                    "patch_applies_to_repo_head": sh(["git", "-C", "/repo", "rev-parse", "--short", "HEAD"]).stdout.strip(),
                    "demo_exit_clean": rc0,
                    "demo_exit_patched": rc1,
                    "demo_output_patched": out1[-300:],
                    "repository_suite": "all 1476 stable_pass tests of BASELINE.json pass with the change (pytest -n, junit compared by tools/import_seed.py)",
                },
            }
            json.dump(meta, open(os.path.join(dst, "meta.json"), "w"), indent=1)
            print(prop, i, "CONFIRMED ->", dst)
        finally:
            sh(["git", "-C", "/repo", "worktree", "remove", "--force", wt])


if __name__ == "__main__":
    main()
