#!/bin/sh
# Runs the repository's own test suite (guard off) and compares with BASELINE.json's stable_pass list.
OUT=${1:-/tmp/verif-baseline.xml}
cd /repo && env -u SKACTIVEML_VERIF /venv/bin/python -m pytest -q -p no:cacheprovider --timeout=900 --continue-on-collection-errors -n ${JOBS:-12} --junitxml=$OUT >/tmp/verif-baseline.log 2>&1
tail -3 /tmp/verif-baseline.log
/venv/bin/python - "$OUT" <<'PY'
import sys, json, xml.etree.ElementTree as ET
base=set(json.load(open('/root/.vp/BASELINE.json'))['stable_pass'])
t=ET.parse(sys.argv[1]).getroot()
passed=set(); failed=set()
for tc in t.iter('testcase'):
    name=f"{tc.get('classname')}::{tc.get('name')}"
    bad=any(ch.tag in('failure','error') for ch in tc)
    skipped=any(ch.tag=='skipped' for ch in tc)
    (failed if bad else passed).add(name) if not skipped else None
missing=sorted(base-passed)
print("stable_pass:",len(base),"passed now:",len(passed&base),"missing/failed:",len(missing))
for m in missing[:20]: print("  NOT PASSING:",m)
PY
