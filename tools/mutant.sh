#!/bin/sh
# usage: tools/mutant.sh <patch> <check-id> [extra args for ./check]
# Applies a patch to a scratch worktree of /repo (never to /repo itself), runs one check
# against it and removes the worktree again.
set -u
PATCH="$(readlink -f "$1")"; ID="$2"; shift 2
W="/tmp/verif-mut-$$"
git -C /repo worktree add -q --detach "$W" HEAD || exit 2
trap 'git -C /repo worktree remove --force "$W" >/dev/null 2>&1; rm -rf "$W"' EXIT
if ! git -C "$W" apply "$PATCH"; then echo "PATCH-DOES-NOT-APPLY $PATCH"; exit 3; fi
VERIF_REPO="$W" VERIF_OUT="$W/.verif-out" /verif/check "$ID" "$@"
