#!/usr/bin/env python3
"""Regenerates /verif/MANIFEST.json from the tables below (keeps it schema-valid)."""
import json
import os
import subprocess

ROOT = os.path.dirname(os.path.dirname(os.path.abspath(__file__)))

TECH = "deterministic simulation with fault injection: seeded search over "

CHECKS = {
    "C03": dict(
        engine="streamsim",
        technique=TECH + "query/update histories with injected spurious queries, twin-world comparison + state snapshots, ddmin-style minimisation, JSON replay",
        text="Seeded exploration of histories of interleaved query/update calls on every exported stream strategy and budget manager (stub or real classifier peer). Each history is executed twice on equal-parameter objects, with and without scheduler-injected spurious queries (duplicates of the pending query, foreign candidates, other chunk sizes or feature counts, before lazy initialisation, between a query and its update; histories may begin with an update so that query, not update, creates the fitted attributes; reports of some chunks are lost; with random_state=None numpy's global generator counts as state; the training window may be a buffer the caller overwrites in place); any difference in any later result, any difference between repeated identical queries and any change of a fitted attribute across an injected query is a violation. Evidence, not proof: the space of histories is sampled.",
        note="Trusted: the honest-caller driver, the stub classifier (stateless by construction), numpy's RandomState. Attributes re-derived from constructor parameters on each call (n_features_in_, budget_, dist_func_, dist_func_dict_) are not counted as state.",
        design="4/C03",
    ),
    "C04": dict(
        engine="streamsim",
        technique=TECH + "adversarial and corrupted utility streams x chunkings, checked per grant against a reference model of the budget estimate and against the stated prefix bound",
        text="Seeded exploration of adversarial utility streams (maximal, constant, bursts, near-threshold, NaN/inf corrupted) x budgets x windows x chunkings x spurious queries for the five window-based managers, the density-based split manager, periodic sampling, random sampling without budget exceeding and the Zliobaite/density/cognitive strategies as pass-throughs. A small reference model recomputes the running estimate from the observed grants and flags any grant made while the estimate is not below the budget; the stated prefix bound is checked at every n. Histories include a warm-up update before the first query, set_params re-configuration of a used manager (budget, window), hand-over of the used manager to a re-created strategy and refused-then-repeated update reports.",
        note="Trusted: the reference recurrences (taken from the property statement and the class docstrings), honest caller. Density/cognitive strategies are driven one instance per call (within a chunk they consult the manager without committing).",
        design="4/C04",
    ),
    "C10": dict(
        engine="streamsim",
        technique=TECH + "re-chunkings of one stream (coalesced/split deliveries), twin-world comparison of decisions and final state, protocol acceptance monitor",
        text="Every run delivers one stream twice to equal-parameter objects: one instance per query/update and under a seeded chunking. update(c, query(c)) must never raise and indices/utilities must be well-formed for every strategy and manager; for the managers and strategies the property names (fixed/variable uncertainty, split, random, balanced incremental quantile filter, baselines) the concatenated decisions and the final budget/threshold/generator state must not depend on the chunking.",
        note="Chunk invariance is judged only when both deliveries produced bit-identical utility streams (a BLAS kernel evaluated on a batch vs. on single rows may differ in the last bit; then the managers saw different inputs). Float state compared to 1e-12 relative.",
        design="4/C10",
    ),
    "C14": dict(
        engine="poolsim",
        technique=TECH + "whole active-learning histories (initial labelling x batch size x scheduled oracle answers) on one long-lived strategy object, invariant monitor per cycle, line-count fuel for termination",
        text="Every exported single-annotator pool strategy (and documented variant, with default and alternative models) is driven through the complete standard loop on small pools with ties, duplicates, constant and collinear features, from zero labels to a single unlabeled sample, with numeric or string class names (missing label None), with oracles that answer truthfully, constantly, with one class for a long prefix, or randomly. After every query: returned within a deterministic step budget, no exception, only unlabeled samples, pairwise distinct, exactly min(batch_size, remaining) many; pool exhausted after ceil(u/batch_size) queries. No infrastructure fault exists in a synchronous loop; the searched space is histories.",
        note="Trusted: the oracle/driver, numpy, scikit-learn estimators used as models. The two pool wrappers take part with batch_size=1 (the only size both document). A raising query is only reported when the caller's scikit-learn based model, fitted on its own on the same labels, predicts valid probabilities. Genuine defects found here were repaired (see known_findings.json); known findings: the capacity-blind leaf allocation of RegressionTreeBasedAL, and four strategies that cannot be driven with class names other than 0..K-1 (QueryByCommittee, BatchBALD, GreedyBALD, EpistemicUncertaintySampling with logistic regression).",
        design="4/C14",
    ),
    "C05": dict(
        engine="poolsim",
        technique=TECH + "operation sequences on long-lived strategy/model/array objects with a frame monitor (arrays, get_params by value, model fingerprint, clone, pickle) after every call",
        text="One strategy object, one set of model objects and the caller's arrays live through a seeded sequence of queries: with and without labelling in between, with fit_* on and off (caller-fitted model), with sample_weight / utility_weight / index and feature-row candidates where supported, on a second data set of other size and scale, and with every lazily resolved default left unset. The caller's model is a transparent proxy: from each of its call-backs the caller's arrays are compared with their value at call time while the query is still running, and one call-back per scheduled operation fails (injected collaborator failure in the middle of a query). After every call (also a call that raised) the monitor compares all arrays byte-wise, get_params(deep=True) by value with the construction-time snapshot, a structural fingerprint of the model argument, and re-checks sklearn.clone and pickle; at the end of the history the used strategy, its clone and its pickle round trip must answer one more query identically (\"a clone behaves like the original\").",
        note="The position of a model's own tie-break generator is excluded from the fingerprint (predict is specified to draw from it). Exceptions are outside the property and only counted.",
        design="4/C05",
    ),
    "C06": dict(
        engine="poolsim",
        technique=TECH + "interference schedules of a foreign actor on numpy's process-global generator (before and, via a transparent model proxy, during library calls); twin-world comparison",
        text="Each scenario (pool loop, stream history or estimator fit/predict life cycle, all with fixed integer or RandomState seeds) is executed in two worlds that differ only in when and how a simulated foreign actor re-seeds or draws from numpy's global generator, including in the middle of a query at each fit/predict call-back of the caller's model. All observables must be identical in both worlds, and the same pool query repeated on one object must return the same result. Consumption of the global generator is only a probe steering the search, never a verdict.",
        note="Every caller-supplied estimator has an integer seed, so remaining global-generator dependence originates in the library or in helpers it constructs. Two fresh twins per run; the proxy is a dynamic subclass that only adds the actor's draw.",
        design="4/C06",
    ),
    "C13": dict(
        engine="lifesim",
        technique=TECH + "call histories (fit / partial_fit / predict / query / update) on one long-lived object with injected wrapped-estimator failures; comparison with a fresh twin built from the original constructor spec, get_params / caller-dict monitor, deque reference model for the sliding window",
        text="One estimator object lives through a seeded history of fit / partial_fit / predict* calls over data sets of different size, scale, dimensionality, label pattern and weights, with symbolic defaults left symbolic, caller-owned dicts as parameters and scheduler-injected fit failures of the wrapped scikit-learn estimator. After every fit-type call it must predict like a fresh object (built from a deep copy of the original constructor spec) that received only the fit-type calls since the last fit, and like sklearn.clone(used object) fitted on the same data; get_params(deep=True) and caller-owned dicts are compared by value after every public call; SlidingWindowClassifier must predict like its base estimator fitted on a deque(maxlen=window_size) of what it was given. Stream strategies and budget managers take part through query/update histories with the same parameter monitor.",
        note="Integer seeds only (the position of a RandomState passed as parameter is not judged). Weighted and unweighted calls are not mixed on a sliding window (unspecified). For partial_fit only leakage from before the last fit and from non-fit calls is judged.",
        design="4/C13",
    ),
    "C11": dict(
        engine="lifesim",
        technique=TECH + "fit / partial_fit histories with injected failures of the wrapped estimator and class-poor stretches; simplex, column-order and cost-optimal-decision invariants after every event",
        text="NARROWED CLAIM: the states of SklearnClassifier, SlidingWindowClassifier and AnnotatorEnsembleClassifier that depend on a call history or on a failing collaborator (wrapped estimator has seen fewer classes than declared, fails to fit, succeeds after a failure; window slides over class-poor stretches). After every fit-type event: predict_proba finite, shape (n, n_classes), non-negative, rows summing to one, the only observed class carries the largest probability at its own training points (column order), predict_freq non-negative, predict within classes_ and cost-optimal w.r.t. predict_proba @ cost_matrix_ up to ties, uniform distribution after a fit without labels. The same invariants are evaluated on ParzenWindowClassifier, MixtureModelClassifier and AnnotatorLogisticRegression along the same histories, but those states are a function of the last fit only and are reported as sampled inputs, not as simulation coverage.",
        note="Decision optimality is only judged when the wrapped scikit-learn estimator's own predict is the arg-max of its own finite predict_proba on the query points (precondition on the collaborator), and not for hard-voting ensembles (their predict_proba is random per call). The random fall-back prediction of SklearnClassifier is a recorded known finding.",
        design="4/C11",
    ),
    "C15": dict(
        engine="lifesim",
        technique=TECH + "fit / partial_fit histories reaching zero-label, one-label and failed-collaborator states; fall-back value oracle plus distribution-coherence invariants after every event",
        text="NARROWED CLAIM: the fall-back clause and the history-reached degenerate states. SklearnRegressor and SklearnNormalRegressor around real estimators behind the fault injector must, after an injected or natural fit failure (estimators that need two samples; integer-typed features included) and with zero or one label, return the documented default (mean 0 or the empirical label mean; std 1 or the empirical std) instead of raising. Along every history all probabilistic regressors must satisfy predict == mean/std/entropy of predict_target_distribution, finite non-negative std under the stated precondition, sample_y of shape (n_query, n_samples) that repeats for a fixed seed; these three are pure per state and are evaluated and reported, the claim being the fall-back clause and the reached states.",
        note="NadarayaWatsonRegressor is only judged with at least one label. Estimator faults are clean failures (raise before mutating).",
        design="4/C15",
    ),
    "C19": dict(
        engine="idxsim",
        technique=TECH + "operation sequences on IndexClassifierWrapper, lock-stepped with an executable reference model (multisets of (index, label, weight) triples + retraining a fresh clone); speed-up on/off twin",
        text="Seeded operation sequences (construction with un-/pre-fitted classifier and base, full and partial precompute announcements, fit, partial_fit from the current or the stored base model, base updates, predictions; label and weight overrides, repeated indices) under all flag combinations are executed on the real wrapper and on a small reference model that keeps the implied multiset of (sample, label, weight) triples (for native partial_fit: the ordered call log). After every prediction the wrapper must agree with a fresh clone of the wrapped classifier trained from scratch on that multiset; state refusals (not fitted, base not set, unknown provenance) must occur exactly when the model predicts them and must leave the wrapper unchanged; for the Parzen window classifier the same sequence with use_speed_up toggled must predict alike (a prediction needing kernel entries that were never announced may only fail with the documented ValueError).",
        note="Probabilities to 1e-9 relative; hard predictions only where the top-two margin exceeds it and the wrapped classifier is not in its random fall-back state. Argument-validation refusals (duplicate indices under enforce_unique_samples) end a run; mixed weighted/unweighted calls are not generated (invalid). A fifth of the runs uses string class names with missing_label=None.",
        design="4/C19",
    ),
    "C20": dict(
        engine="parsim",
        technique=TECH + "joblib task orders, worker isolation (pickle round trip), baton-scheduled real threads with seeded pre-emption at line events inside skactiveml, simulated CPU counts; comparison with the sequentially queried wrapped strategy",
        text="NARROWED CLAIM: the parallel-wrapper clause. ParallelUtilityEstimationWrapper runs on a simulated joblib backend selected through its own parallel_dict: tasks are executed in a seeded permutation, optionally each behind a cloudpickle/pickle round trip (process semantics), or as real threads of which a baton lets exactly one run while a sys.settrace hook pre-empts at up to six seeded task-local line counts inside skactiveml code; joblib.cpu_count as seen by the wrapper is simulated (1..64) and n_jobs ranges over 1..candidates+3 and negative values; index candidates may include labelled samples; parallel_dict may carry its own n_jobs entry; in a third of the runs the wrapper object has been used before (a query with another candidate set of the same size, for half of them with another configuration of the wrapped strategy that is replaced through set_params before the judged call). The wrapper must not raise where the wrapped strategy answers, must return the wrapped strategy's utilities (1e-12) and a pick that attains their maximum and, for equal seeds, equals the wrapped strategy's pick. The sub-sampling and single-annotator wrapper clauses are pure functions of the seed and are not decided by this technique.",
        note="Inner strategies: whitelist of strategies whose candidate utilities are independent of the other candidates; a divergence is reported only after the same chunks evaluated sequentially by the harness agree with the unchunked query. Pick equality only when the utilities are bit-identical or the top-two gap is clear, and only when the wrapped strategy's own pick is a function of (utilities, seed). Pre-emption granularity is a Python line inside skactiveml; loky is represented by pickle isolation.",
        design="4/C20",
    ),
    "C07": dict(
        engine="crowdsim",
        technique=TECH + "crowd-labelling histories with annotator-availability faults (annotators off-line, pairs blocked, no answer) under all documented argument representations; per-call invariant monitor; line-count fuel for the liveness clause; in a share of the runs two caller threads are inside query on the same strategy object under a baton scheduler with seeded pre-emption at line events",
        text="A multi-annotator strategy (SingleAnnotatorWrapper around every classification strategy of the pool registry, IntervalEstimationThreshold) is driven through several crowd-labelling cycles on a label matrix that fills up. Per cycle the scheduler decides which annotators are off-line, which pairs are blocked, whether a queried annotator answers, how availability and candidates are expressed (None, index array, boolean matrix, feature rows), the batch size and the annotators-per-sample request. Every call must return within a deterministic step budget; the result must be k = min(batch_size, available pairs) pairwise distinct available pairs; utilities must have the documented shape, be NaN at unavailable and already chosen pairs and a number at the chosen pair; an annotators-per-sample request (integer or per-rank array) must be met for every selected sample but the last where the selected samples offer enough pairs. In about 14 % of the runs a second caller thread calls query on the same strategy object with other arguments (its own availability scenario, possibly its own label matrix) while the first call is pre-empted at seeded line counts or, in lockstep plans, at every statement boundary of the outermost library frames (real threads, one baton, exact replay); each of the two overlapping calls is judged by the same oracle against its own arguments.",
        note="Availability is what the arguments say (documented table). Strategies that need the position of candidates in X are not given feature-row candidates (documented refusal). A share of the runs uses string class names with missing_label=None. Known findings: IntervalEstimationThreshold returns fewer pairs; Badge and Quire as wrapped strategies raise once every offered sample carries some annotator's label; QueryByCommittee and EpistemicUncertaintySampling as wrapped strategies cannot handle string class names. Overlapping calls are only generated for wrapped strategies whose own query keeps no per-call state on the object and are never compared with a sequential result.",
        design="4/C07",
    ),
}

NOT_APPLICABLE = {
    "C01": "a single pool query is a pure function of its arguments; no history, collaborator fault or schedule exists for a simulator to vary (its candidates=None clause is enforced inside C14's loop oracle)",
    "C02": "relation between the two return values of one pure call; nothing to schedule or inject",
    "C08": "metamorphic relation between differently addressed calls of a pure function; no state, peer or interleaving involved",
    "C09": "metamorphic relation between differently encoded calls of pure functions; no state, peer or interleaving involved",
    "C12": "relation between two independent fits of a pure function; the history-dependent part of fitting is C13",
    "C16": "algebraic laws of pure label helpers; no state, time, I/O or concurrency",
    "C17": "equality of pure aggregation helpers with a counting specification; no state, time, I/O or concurrency",
    "C18": "laws of pure selection helpers over arrays and seeds; no state, time, I/O or concurrency",
}

PENDING = "simulation check designed (DESIGN.md section 4) but not yet built; not claimed until it runs"

ENGINES = [
    dict(name="streamsim", path="simkit/engines/streamsim.py", serves_properties=["C03", "C04", "C10"], kind_free_text="stream source + classifier peer + strategy/budget manager + by-standers; time = stream position; faults: spurious queries, re-chunking, corrupted utilities, classifier retraining"),
    dict(name="poolsim", path="simkit/engines/poolsim.py", serves_properties=["C14", "C05", "C06"], kind_free_text="pool active-learning loop with scheduled oracle answers, frame monitor, foreign actor on numpy's global generator"),
    dict(name="crowdsim", path="simkit/engines/crowdsim.py", serves_properties=["C07"], kind_free_text="multi-annotator loop with annotator availability faults and line-count fuel"),
    dict(name="lifesim", path="simkit/engines/lifesim.py", serves_properties=["C13", "C11", "C15"], kind_free_text="estimator life cycles with failing wrapped estimators"),
    dict(name="idxsim", path="simkit/engines/idxsim.py", serves_properties=["C19"], kind_free_text="operation sequences on IndexClassifierWrapper vs multiset reference model"),
    dict(name="parsim", path="simkit/engines/parsim.py", serves_properties=["C20"], kind_free_text="simulated joblib backend: task reordering, pickle isolation, baton-scheduled threads with seeded pre-emption"),
]


def main():
    props = [json.loads(l)["id"] for l in open(os.path.join(ROOT, "properties.jsonl"))]
    built = [p for p in props if p in CHECKS and os.path.exists(os.path.join(ROOT, "simkit", "engines", CHECKS[p]["engine"] + ".py"))]
    checks = []
    for p in built:
        c = CHECKS[p]
        checks.append(
            {
                "property_id": p,
                "quick_cmd": f"./check {p} --tier quick",
                "thorough_cmd": f"./check {p} --tier thorough",
                "evidence_file": f"/verif/evidence/{p}.json",
                "replay_cmd_template": "./check replay {path}",
                "engine": c["engine"],
                "level_claimed": {"category": "exploration", "text": c["text"], "design_ref": c["design"]},
                "level_note": c["note"],
                "technique": c["technique"],
            }
        )
    na = []
    for p in props:
        if p in built:
            continue
        na.append({"property_id": p, "reason": NOT_APPLICABLE.get(p, PENDING)})
    try:
        commits = subprocess.run(["git", "-C", "/repo", "log", "--format=%h %s", "--grep=^hook", "-i"], capture_output=True, text=True).stdout.split("\n")
        commits = [c.split()[0] for c in commits if c.strip()]
    except Exception:
        commits = []
    baseline = json.load(open("/root/.vp/BASELINE.json"))["cmd"] if os.path.exists("/root/.vp/BASELINE.json") else "cd /repo && /venv/bin/python -m pytest -q"
    doc = {
        "version": 1,
        "setup_cmd": "mkdir -p .cache evidence replays && ./check selftest determinism --seeds 6",
        "hooks": {
            "guard": "SKACTIVEML_VERIF",
            "enable": "none needed: no hook was added to the repository; every seam (estimator arguments, annotators, parallel_dict backend, numpy's global generator, sys.settrace) already exists. ./check exports SKACTIVEML_VERIF=1 for completeness.",
            "baseline_off_cmd": baseline,
            "source_commits": [],
            "add_only": True,
        },
        "engines": [e for e in ENGINES if os.path.exists(os.path.join(ROOT, e["path"]))],
        "checks": checks,
        "not_applicable": na,
        "notes": "All checks import the repository's working tree directly (pure Python; VERIF_REPO overrides /repo for scratch copies). Exit 0 = held on everything explored, 1 = VIOLATION line printed, 2 = HARNESS-ERROR (never a verdict). VERIF_SEED selects the master seed, VERIF_JOBS the worker count. Genuine defects repaired in /repo are listed as 'fixed' in known_findings.json; entries with status 'known' print KNOWN-FINDING lines.",
    }
    with open(os.path.join(ROOT, "MANIFEST.json"), "w") as f:
        json.dump(doc, f, indent=1)
    print("MANIFEST.json:", len(checks), "checks,", len(na), "not claimed")


if __name__ == "__main__":
    main()
